#!/usr/bin/env python3
"""Confirms a seeded change written by a sub-agent: it applies, builds, passes the
pinned suite, its demonstration fails with it and passes without it; then runs
the given checks against it.  usage: seedverify.py <dir with patch.diff + demo_test.go> <prop>..."""
import subprocess, sys, os, re, glob, json, time
d = sys.argv[1].rstrip("/")
props = sys.argv[2:]
ENV = "export GOFLAGS=-mod=mod GOPROXY=off GOSUMDB=off GOTOOLCHAIN=local; "
def sh(cmd, timeout=1800):
    try:
        return subprocess.run(ENV + cmd, shell=True, capture_output=True, text=True, timeout=timeout)
    except subprocess.TimeoutExpired as e:
        class R: returncode = 124; stdout = (e.stdout or b"").decode() if isinstance(e.stdout, bytes) else (e.stdout or ""); stderr = "TIMEOUT"
        return R()
WT = f"/tmp/seedv-{os.getpid()}"
res = {"dir": d, "props": props}
assert sh(f"git -C /repo worktree add -q {WT} HEAD").returncode == 0
try:
    patch = os.path.join(d, "patch.diff")
    r = sh(f"git -C {WT} apply {patch}")
    res["applies"] = r.returncode == 0
    if not res["applies"]:
        print("PATCH DOES NOT APPLY", r.stderr); sys.exit(1)
    r = sh(f"cd {WT} && go build ./... && go build -tags verif ./...")
    res["builds"] = r.returncode == 0
    os.makedirs("/tmp/mut", exist_ok=True)
    # the service tests use a fixed TCP port: one run of the pinned suite at a time
    r = sh(f"flock /tmp/mut/suite.lock python3 /verif/tools/baseline.py {WT}", 3600)
    res["baseline"] = r.stdout.strip().splitlines()[0] if r.stdout.strip() else r.stderr[:200]
    demos = glob.glob(os.path.join(d, "*_test.go")) + glob.glob(os.path.join(d, "demo*.go"))
    demo = demos[0] if demos else None
    if demo:
        src = open(demo).read()
        m = re.search(r"package dir:\s*(\S+)", src)
        pkg = m.group(1).strip("./") if m else "service"
        tests = re.findall(r"^func (Test\w+)", src, re.M)
        run = "|".join(tests) or "."
        dst = os.path.join(WT, pkg, "zz_seeded_demo_test.go")
        open(dst, "w").write(src)
        race = "-race " if (props and props[0] == "C18") or "go test -race" in src else ""
        cmd = f"cd {WT} && go test {race}-vet=off -count=1 -timeout 600s -run '^({run})$' ./{pkg}/"
        fails = 0
        for i in range(3):
            r = sh(cmd, 900)
            if r.returncode != 0:
                fails += 1
                if fails == 1:
                    res["demo_with_patch_tail"] = (r.stdout + r.stderr)[-400:]
        res["demo_fails_with_patch"] = f"{fails}/3"
        sh(f"git -C {WT} apply -R {patch}")
        passes = 0
        for i in range(3):
            r = sh(cmd, 900)
            if r.returncode == 0:
                passes += 1
            else:
                res["demo_without_patch_tail"] = (r.stdout + r.stderr)[-400:]
        res["demo_passes_without_patch"] = f"{passes}/3"
        os.remove(dst)
        sh(f"git -C {WT} apply {patch}")
        res["demo_cmd"] = cmd.replace(WT, "<tree>")
    checks = {}
    for p in props:
        # (the thorough tier after a quick miss costs 10-20 minutes per property:
        # only on request)
        for tier in (("quick", "thorough") if os.environ.get("SEEDVERIFY_THOROUGH") else ("quick",)):
            t0 = time.time()
            r = sh(f"cd /verif && VERIF_REPO={WT} bin/vcheck run {p} --tier {tier} --no-evidence", 3600)
            sigs = sorted(set(re.findall(r"signature: (\S+)", r.stdout) + [x.replace(' ', '_') for x in re.findall(r"data race (C18\S* \S+)", r.stdout)]))
            infra = re.findall(r"INFRASTRUCTURE-ERROR: (.{0,200})", r.stdout)
            checks[f"{p}/{tier}"] = {"exit": r.returncode, "seconds": round(time.time() - t0), "signatures": sigs[:10], "infra": infra[:2]}
            if r.returncode == 1:
                break
            if r.returncode != 0:
                # infrastructure trouble (build failure, time-out): not a verdict
                res["checks"] = checks
                print(json.dumps(res, indent=1))
                sys.exit(3)
    res["checks"] = checks
finally:
    sh(f"git -C /repo worktree remove --force {WT}")
print(json.dumps(res, indent=1))
