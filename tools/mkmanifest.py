#!/usr/bin/env python3
"""Writes /verif/MANIFEST.json from the table below (kept in one place so that
the manifest is always valid and always lists every property exactly once)."""
import json, os, subprocess

ROOT = os.path.dirname(os.path.dirname(os.path.abspath(__file__)))

TRUST = ("Trusted base: the simulator runtime and its models of sync, sync/atomic, time and net (FIFO cond wake-up, "
         "writer-preferring RWMutex, TCP-like lossless links), the source rewriter (import substitution, go statements, "
         "map ranges), the independent reference codec/models used as oracles. Sampling, not proof: a clean batch is evidence.")

# id -> (level, technique, text, design_ref)   for claimed checks
CLAIMED = {
 "C14": ("exploration", "deterministic simulation: seeded schedules over the real ring buffer, position-dependent stream oracle",
         "Seeded search over producer/consumer operation sequences and over every interleaving point (each sync/atomic operation is a scheduling point); every byte the consumer obtains is compared with a position-dependent stream, peeked bytes are re-verified before commit.", "§6 C14"),
 "C15": ("exploration", "deterministic simulation: seeded schedules + closer tasks, exact parked-task predicate at quiescence",
         "Same world plus closer tasks; liveness is judged exactly at quiescence (the simulator knows what every parked task waits for), Close must return, every call after Close must return.", "§6 C15"),
}

NOT_YET = {}
NA = {
 "C03": "pure function of its input (Encode/Decode/Len): no schedule, clock, fault or interleaving to simulate; deciding it is input generation against a reference codec, not simulation (DESIGN.md §7). The packet-id counter clause is exercised under C12/C17.",
 "C04": "pure function of a byte slice (Decode totality): nothing for a simulator to schedule or fault; its system-level consequence (malformed input must not hurt the broker) is C05 (DESIGN.md §7).",
}

def main():
    props = [json.loads(l) for l in open(os.path.join(ROOT, "properties.jsonl"))]
    hooks = subprocess.run(["git", "-C", "/repo", "log", "--format=%H %s"], capture_output=True, text=True).stdout.splitlines()
    hook_commits = [l.split()[0] for l in hooks if "verif hooks" in l]
    checks, na = [], []
    for p in props:
        i = p["id"]
        if i in CLAIMED:
            level, tech, text, ref = CLAIMED[i]
            checks.append({
                "property_id": i,
                "quick_cmd": f"bin/vcheck run {i} --tier quick",
                "thorough_cmd": f"bin/vcheck run {i} --tier thorough",
                "evidence_file": f"/verif/evidence/{i}.json",
                "replay_cmd_template": "bin/vcheck replay {path}",
                "engine": "vsim",
                "level_claimed": {"category": level, "text": text, "design_ref": ref},
                "level_note": TRUST,
                "technique": tech,
            })
        elif i in NA:
            na.append({"property_id": i, "reason": NA[i]})
        else:
            na.append({"property_id": i, "reason": NOT_YET.get(i, "check not built yet in this snapshot of /verif (planned, see DESIGN.md §6); not claimed until its world and oracle exist")})
    m = {
        "version": 1,
        "setup_cmd": "tools/setup.sh",
        "hooks": {
            "guard": "verif (Go build tag)",
            "enable": "checks copy /repo's working tree to /verif/.work/<id>, rewrite the copy (imports of sync, sync/atomic, time, net -> simulator shims; go statements -> simrt.Go; map ranges -> deterministic order) and build it with -tags verif; nothing in /repo is rewritten",
            "baseline_off_cmd": "cd /repo && go test -mod=mod -vet=off -count=1 ./...",
            "source_commits": hook_commits,
            "add_only": True,
        },
        "engines": [{"name": "vsim", "path": "/verif/sim", "serves_properties": sorted(CLAIMED), "kind_free_text": "deterministic simulation with fault injection: cooperative seeded scheduler over replaced sync/atomic/time/net, simulated transport, reference models; driver /verif/tools/cmd/vcheck"}],
        "checks": checks,
        "not_applicable": na,
        "notes": "Exit codes of every check: 0 held on everything explored (KNOWN-FINDING lines possible), 1 VIOLATION property=<id> replay=<path>, 2 infrastructure trouble (never a violation). VERIF_SEED and VERIF_TIER are honoured.",
    }
    json.dump(m, open(os.path.join(ROOT, "MANIFEST.json"), "w"), indent=1)
    print("MANIFEST.json:", len(checks), "checks,", len(na), "not claimed")

if __name__ == "__main__":
    main()
