#!/usr/bin/env python3
"""Writes /verif/MANIFEST.json from the table below (kept in one place so that
the manifest is always valid and always lists every property exactly once)."""
import json, os, subprocess

ROOT = os.path.dirname(os.path.dirname(os.path.abspath(__file__)))

TRUST = ("Trusted base: the simulator runtime and its models of sync, sync/atomic, time and net (FIFO cond wake-up, "
         "writer-preferring RWMutex, TCP-like lossless links), the source rewriter (import substitution, go statements, "
         "map ranges), the independent reference codec/models used as oracles. Sampling, not proof: a clean batch is evidence.")

# id -> (level, technique, text, design_ref)   for claimed checks
B = "deterministic simulation: real broker on a simulated transport, seeded schedules and faults, "
CLAIMED = {
 "C01": ("exploration", B + "reference matcher with must/may windows over wire stamps",
         "Seeded search over client histories (connect/subscribe/unsubscribe/publish/disconnect, in-process subscribers), inputs (filters, topics, QoS, payload sizes up to the packet limit) and interleavings; every delivery is attributed to one publish and judged against a reference matcher; obligations only where the subscription's certain window covers the publish's acceptance window.", "§6 C01"),
 "C02": ("exploration", B + "ack-stream and hand-over history check (broker role); client role in the client world",
         "Scripted sender interleaving PUBLISH/DUP/PUBREL/duplicate PUBREL over several identifiers with ring-wrapping traffic; one ack per packet with the same identifier, hand-over count between certain and possible, never before the releasing PUBREL, payload byte-identical.", "§6 C02"),
 "C05": ("fault_enumeration", B + "attacker scripts + enumeration of all truncation points; witness pair must stay exact",
         "Attackers send garbage/corrupted/truncated/oversized packets before and after CONNECT and vanish while being delivered to; all truncation points of all 14 packet types are enumerated; oracle: no panic reaches the top of a goroutine, the process survives an 8 GiB address space, no well-behaved connection is closed, witness traffic exact.", "§6 C05"),
 "C07": ("exploration", B + "SUBACK/UNSUBACK stream against the specification table, effect windows",
         "SUBSCRIBE/UNSUBSCRIBE packets with 1-12 valid/invalid/repeated filters and in/out-of-range QoS under a server maximum of 0-2, probed by a publisher; one ack per request in order with exact return codes, effect judged through the routing oracle.", "§6 C07"),
 "C08": ("exploration", B + "retained-store model with value-set windows",
         "Retained/clearing/plain publishes interleaved (and racing) with subscriptions; per SUBSCRIBE and topic the set of values that could be current in the request's window decides which retained copy is required, permitted or forbidden; payload byte-identical, QoS min(stored, granted), retain flag only right after a SUBACK.", "§6 C08"),
 "C09": ("fault_enumeration", B + "end-cause enumeration per connection, will as an obligatory publish",
         "Every way a connection can end (DISCONNECT, DISCONNECT behind traffic, FIN, RST, cut inside a packet, keep-alive expiry in virtual time, undecodable packet, left open) crossed with will parameters and session histories; the will of the ending connection's own CONNECT must be published exactly once after every abnormal end and never otherwise.", "§6 C09"),
 "C10": ("exploration", B + "session-store model for SessionPresent, restored subscriptions through the routing oracle",
         "Sequences of connect(CleanSession 0/1)/subscribe/unsubscribe/end over several identifiers with a probing publisher; SessionPresent against a model keyed by client identifier; restored subscriptions must deliver after the first answered request; nothing of a clean session survives.", "§6 C10"),
 "C11": ("fault_enumeration", B + "first-packet enumeration against the MQTT answer table, side-effect probes",
         "First packets of every type and CONNECT variants (protocol name/level, identifiers, will flags, credentials, reserved flag, truncation) under accepting/rejecting authenticators, followed by further packets; CONNACK code set and closure from the specification text; a witness and a prober check that unaccepted connections had no effect.", "§6 C11"),
 "C12": ("exploration", B + "in-flight packet-identifier set per connection (broker role); completion history in the client world",
         "Broker role: several publishers with equal packet identifiers deliver to shared subscribers that acknowledge late or never; unacknowledged PUBLISH packets per connection must carry non-zero distinct identifiers; each PUBREC is answered by PUBREL. Client role: see the client world.", "§6 C12"),
 "C16": ("fault_enumeration", B + "cause x buffer-condition grid, exact goroutine census at quiescence",
         "End cause x buffer condition (idle, outgoing ring full, incoming ring full behind a third party, cross-blocked pair) x order of ends; at every quiescence point without stalled open connection exactly one processor/receiver/sender per open connection exists; after all ended no library goroutine; Server.Close and ListenAndServe return.", "§6 C16"),
 "C17": ("exploration", B + "strict reference parse of every emitted byte, per-publisher sequence order",
         "Concurrent publishers to shared slow subscribers with packets straddling the ring end; every byte the broker writes on every link must parse strictly; sequence numbers per publisher connection, topic and QoS arrive in order.", "§6 C17"),
 "C06": ("exploration", "deterministic simulation: topic store as a concurrent object, specification matcher + porcupine linearizability check, exhaustive alphabet sweep",
         "1-3 simulated callers on one MemTopics; sequential histories (up to 1000 calls) compared call by call with an MQTT 4.7 matcher + maps, concurrent ones (up to 35 calls, stamped with the simulator's event sequence) checked with porcupine; one enumerated script sweeps all filters x topics of up to four levels over {a,b,empty,+,#}.", "§6 C06"),
 "C13": ("exploration", "deterministic simulation: ack queue as a concurrent object, list model + porcupine",
         "The six queues of a Session driven by one caller (up to 5000 operations, up to 600 in flight: growth while wrapped, identifier reuse, two-step QoS 2 states) or by registering tasks plus a processor task (porcupine); byte-identical request/ack copies although the harness overwrites its buffers.", "§6 C13"),
 "C18": ("exploration", "deterministic simulation under the race detector: only the library is instrumented, simulator hand-offs are invisible to ThreadSanitizer",
         "The workloads of the other worlds (routing with in-process calls, retained updates racing with subscriptions, teardown under delivery and Server.Close, fan-in, wills, session churn, attackers, ring, ack queue, topic store) run in a -race worker whose scheduler is seeded and serialised; a violation is a race report with both accesses in library code.", "§6 C18"),
 "C20": ("exploration", "deterministic simulation: real Client against a scripted server on the simulated transport, result table and dispatch windows",
         "CONNACK variants (codes, malformed, silence with virtual connect timeout, close before/inside) decide Connect's result, leftover goroutines and the connection; Subscribe/Unsubscribe requests with distinct callbacks against inbound PUBLISH traffic (QoS 0-2, DUP repeats, explicit PUBREL) decide callback counts between certain and possible hand-overs.", "§6 C20"),
 "C19": ("exploration", B + "virtual-time activity patterns against close deadlines",
         "Keep-alive values 1-10 s and activity patterns (silent, traffic then silent, pinging/publishing at 0.2-0.95 K, dribbled bytes, reconnect) in virtual time; silent clients are closed by 2K+1 s and their will published; clients whose gaps stay below K are never closed; each PINGREQ gets one PINGRESP.", "§6 C19"),
 "C14": ("exploration", "deterministic simulation: seeded schedules over the real ring buffer, position-dependent stream oracle",
         "Seeded search over producer/consumer operation sequences and over every interleaving point (each sync/atomic operation is a scheduling point); every byte the consumer obtains is compared with a position-dependent stream, peeked bytes are re-verified before commit.", "§6 C14"),
 "C15": ("exploration", "deterministic simulation: seeded schedules + closer tasks, exact parked-task predicate at quiescence",
         "Same world plus closer tasks; liveness is judged exactly at quiescence (the simulator knows what every parked task waits for), Close must return, every call after Close must return.", "§6 C15"),
}

NOT_YET = {}
for _k in ("C02", "C12"):
    pass
NA = {
 "C03": "pure function of its input (Encode/Decode/Len): no schedule, clock, fault or interleaving to simulate; deciding it is input generation against a reference codec, not simulation (DESIGN.md §7). The packet-id counter clause is exercised under C12/C17.",
 "C04": "pure function of a byte slice (Decode totality): nothing for a simulator to schedule or fault; its system-level consequence (malformed input must not hurt the broker) is C05 (DESIGN.md §7).",
}

def main():
    props = [json.loads(l) for l in open(os.path.join(ROOT, "properties.jsonl"))]
    hooks = subprocess.run(["git", "-C", "/repo", "log", "--format=%H %s"], capture_output=True, text=True).stdout.splitlines()
    hook_commits = [l.split()[0] for l in hooks if "verif hook" in l]
    checks, na = [], []
    for p in props:
        i = p["id"]
        if i in CLAIMED:
            level, tech, text, ref = CLAIMED[i]
            checks.append({
                "property_id": i,
                "quick_cmd": f"bin/vcheck run {i} --tier quick",
                "thorough_cmd": f"bin/vcheck run {i} --tier thorough",
                "evidence_file": f"/verif/evidence/{i}.json",
                "replay_cmd_template": "bin/vcheck replay {path}",
                "engine": "vsim",
                "level_claimed": {"category": level, "text": text, "design_ref": ref},
                "level_note": TRUST,
                "technique": tech,
            })
        elif i in NA:
            na.append({"property_id": i, "reason": NA[i]})
        else:
            na.append({"property_id": i, "reason": NOT_YET.get(i, "check not built yet in this snapshot of /verif (planned, see DESIGN.md §6); not claimed until its world and oracle exist")})
    m = {
        "version": 1,
        "setup_cmd": "tools/setup.sh",
        "hooks": {
            "guard": "verif (Go build tag)",
            "enable": "checks copy /repo's working tree to /verif/.work/<id>, rewrite the copy (imports of sync, sync/atomic, time, net -> simulator shims; go statements -> simrt.Go; map ranges -> deterministic order) and build it with -tags verif; nothing in /repo is rewritten",
            "baseline_off_cmd": "cd /repo && go test -mod=mod -vet=off -count=1 ./...",
            "source_commits": hook_commits,
            "add_only": True,
        },
        "engines": [{"name": "vsim", "path": "/verif/sim", "serves_properties": sorted(CLAIMED), "kind_free_text": "deterministic simulation with fault injection: cooperative seeded scheduler over replaced sync/atomic/time/net, simulated transport, reference models; driver /verif/tools/cmd/vcheck"}],
        "checks": checks,
        "not_applicable": na,
        "notes": "Exit codes of every check: 0 held on everything explored (KNOWN-FINDING lines possible), 1 VIOLATION property=<id> replay=<path>, 2 infrastructure trouble (never a violation). VERIF_SEED and VERIF_TIER are honoured.",
    }
    json.dump(m, open(os.path.join(ROOT, "MANIFEST.json"), "w"), indent=1)
    print("MANIFEST.json:", len(checks), "checks,", len(na), "not claimed")

if __name__ == "__main__":
    main()
