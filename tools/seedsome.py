#!/usr/bin/env python3
"""Re-runs the recorded checks against a chosen subset of the seeded changes and
merges the result into seeded/RECHECK.json (which tools/seedall.py writes for a
complete pass).  usage: seedsome.py <minutes> <id or property prefix>...
Entries that no pass of this kind has re-run against the current tree are listed
under "_not_rerun" with the reason."""
import json, subprocess, re, os, time, sys, glob
root = os.path.dirname(os.path.dirname(os.path.abspath(__file__)))
budget = float(sys.argv[1]) * 60
prefixes = sys.argv[2:]
rp = os.path.join(root, "seeded", "RECHECK.json")
res = json.load(open(rp)) if os.path.exists(rp) else {}
res = {k: v for k, v in res.items() if not k.startswith("_")}
todo = []
for d in sorted(glob.glob(os.path.join(root, "seeded", "*"))):
    b = os.path.basename(d)
    mp = os.path.join(d, "meta.json")
    if not os.path.exists(mp) or json.load(open(mp)).get("base"):
        continue
    if any(b.startswith(p) for p in prefixes):
        todo.append(b)
t0 = time.time()
late = []
for b in todo:
    if time.time() - t0 > budget:
        late.append(b)
        continue
    m = json.load(open(os.path.join(root, "seeded", b, "meta.json")))
    props = sorted({k.split("/")[0] for k, v in m.get("checks_run", {}).items() if v.get("exit") == 1})
    t1 = time.time()
    r = subprocess.run([os.path.join(root, "tools", "seedcheck.py"), os.path.join(root, "seeded", b, "patch.diff")] + props, capture_output=True, text=True)
    caught = re.findall(r"^(C\d\d) quick: exit=1", r.stdout, re.M)
    res[b] = {"props": props, "caught": caught, "seconds": round(time.time() - t1), "note": (r.stderr or "").strip()[:200]}
    print(b, "caught by", caught, "of", props, flush=True)
    json.dump(res, open(rp, "w"), indent=1)
ids = [os.path.basename(d) for d in glob.glob(os.path.join(root, "seeded", "*")) if os.path.exists(os.path.join(d, "meta.json")) and not json.load(open(os.path.join(d, "meta.json"))).get("base")]
res["_not_rerun"] = {"reason": "no time left in the session that changed the generators last; their meta.json holds the run that caught them", "ids": sorted(set(ids) - set(res.keys()))}
json.dump(res, open(rp, "w"), indent=1)
print("not caught:", [k for k, v in res.items() if not k.startswith("_") and not v["caught"]])
