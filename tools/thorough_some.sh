#!/bin/sh
# Runs the thorough tier of the named properties (used with `vp run`):
# thorough_some.sh <seed> <prop>...
cd "$(dirname "$0")/.."
tools/setup.sh >/dev/null
seed=$1; shift
for p in "$@"; do
  VERIF_SEED=$seed bin/vcheck run $p --tier thorough --no-evidence > thorough_$p.log 2>&1
  echo "$p seed=$seed exit=$? $(grep -E "^$p thorough" thorough_$p.log | cut -c1-200)"
  grep -E "^VIOLATION|INFRASTRUCTURE|  signature" thorough_$p.log | head -8
done
