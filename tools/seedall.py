#!/usr/bin/env python3
"""Re-runs the quick tier of the recorded checks against every seeded change
(applied to a scratch worktree of /repo's HEAD) and prints which are caught.
usage: seedall.py [id-prefix]"""
import json, glob, os, subprocess, sys, re, time
root = os.path.dirname(os.path.dirname(os.path.abspath(__file__)))
pref = sys.argv[1] if len(sys.argv) > 1 else ""
res = {}
# SEEDALL_MINUTES: stop starting new ones after this many minutes (the result
# file then says which were not re-run)
budget = float(os.environ.get("SEEDALL_MINUTES", "0")) * 60
tstart = time.time()
skipped = []
for d in sorted(glob.glob(os.path.join(root, "seeded", pref + "*"))):
    mp = os.path.join(d, "meta.json")
    if not os.path.exists(mp):
        continue
    m = json.load(open(mp))
    if m.get("base"):
        # written against an older tree and without a trigger on the current one
        # (see its meta.json): not re-run
        continue
    props = sorted({k.split("/")[0] for k, v in m.get("checks_run", {}).items() if v.get("exit") == 1})
    if budget and time.time() - tstart > budget:
        skipped.append(m["id"])
        continue
    t0 = time.time()
    r = subprocess.run([os.path.join(root, "tools", "seedcheck.py"), os.path.join(d, "patch.diff")] + props, capture_output=True, text=True)
    caught = re.findall(r"^(C\d\d) quick: exit=1", r.stdout, re.M)
    res[m["id"]] = {"props": props, "caught": caught, "seconds": round(time.time() - t0), "note": (r.stderr or "").strip()[:200]}
    print(m["id"], "caught by", caught, "of", props, res[m["id"]]["note"], flush=True)
    json.dump(res, open(os.path.join(root, "seeded", "RECHECK.json"), "w"), indent=1)
if skipped:
    res["_not_rerun_time_budget"] = skipped
json.dump(res, open(os.path.join(root, "seeded", "RECHECK.json"), "w"), indent=1)
bad = [k for k, v in res.items() if not k.startswith("_") and not v["caught"]]
print("not caught:", bad)
