#!/usr/bin/env python3
"""Runs the repository's pinned test suite (guard off) in the given tree and
compares with BASELINE.json: exit 0 iff every stable_pass test passes."""
import json, os, subprocess, sys
tree = sys.argv[1] if len(sys.argv) > 1 else "/repo"
base = json.load(open("/root/.vp/BASELINE.json"))
env = dict(os.environ, GOFLAGS="-mod=mod", GOPROXY="off", GOSUMDB="off", GOTOOLCHAIN="local")
# The service tests use real sockets on a fixed port and are timing dependent
# in this sandbox (the baseline itself was taken over 3 runs): a pinned test
# counts as passing if it passes in one of up to 3 runs.
res = {}
for attempt in range(3):
    p = subprocess.run(["go", "test", "-json", "-vet=off", "-count=1", "-timeout", "25m", "./..."], cwd=tree, env=env, capture_output=True, text=True)
    for l in p.stdout.splitlines():
        try:
            e = json.loads(l)
        except Exception:
            continue
        if e.get("Test") and e.get("Action") in ("pass", "fail"):
            k = e["Package"] + "::" + e["Test"]
            if res.get(k) != "pass":
                res[k] = e["Action"]
    bad = [t for t in base["stable_pass"] if res.get(t) != "pass"]
    if not bad:
        break
print(f"{len(base['stable_pass']) - len(bad)}/{len(base['stable_pass'])} pinned tests pass")
for t in bad:
    print("NOT PASSING:", t, res.get(t))
if not res:
    print(p.stdout[-2000:], p.stderr[-2000:])
sys.exit(1 if bad else 0)
