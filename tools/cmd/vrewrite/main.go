// Command vrewrite rewrites a scratch copy of the library for the simulator.
package main

import (
	"fmt"
	"os"

	"verif/tools/rewrite"
)

func main() {
	if len(os.Args) != 2 {
		fmt.Fprintln(os.Stderr, "usage: vrewrite <dir>")
		os.Exit(2)
	}
	st, err := rewrite.Dir(os.Args[1])
	if err != nil {
		fmt.Fprintln(os.Stderr, "vrewrite:", err)
		os.Exit(2)
	}
	fmt.Printf("vrewrite: %d files, %d imports, %d go statements, %d map ranges\n", st.Files, st.Imports, st.GoStmts, st.MapRanges)
}
