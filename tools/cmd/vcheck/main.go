// Command vcheck is the driver of the go-mqtt simulation checks: it copies the
// current /repo working tree to a scratch directory, rewrites it onto the
// simulator, builds the worker, fans seeds out over worker processes,
// minimises and replays violations, writes the evidence file and decides the
// exit code (0 held / 1 VIOLATION / 2 infrastructure trouble).
package main

import (
	"bufio"
	"bytes"
	"crypto/sha256"
	"encoding/binary"
	"encoding/json"
	"flag"
	"fmt"
	"io"
	"os"
	"os/exec"
	"path/filepath"
	"runtime"
	"sort"
	"strconv"
	"strings"
	"sync"
	"syscall"
	"time"
)

var (
	verifDir = "/verif"
	repoDir  = "/repo"
)

func die(format string, a ...interface{}) {
	fmt.Fprintf(os.Stderr, "vcheck: "+format+"\n", a...)
	fmt.Printf("INFRASTRUCTURE-ERROR: "+format+"\n", a...)
	os.Exit(2)
}

func main() {
	if exe, err := os.Executable(); err == nil {
		// <verif>/bin/vcheck: work on the tree the binary was built from
		if d := filepath.Dir(filepath.Dir(exe)); filepath.Base(filepath.Dir(exe)) == "bin" {
			verifDir = d
		}
	}
	if v := os.Getenv("VERIF_DIR"); v != "" {
		verifDir = v
	}
	if v := os.Getenv("VERIF_REPO"); v != "" {
		repoDir = v
	}
	if len(os.Args) < 2 {
		die("usage: vcheck run|replay|build|selftest ...")
	}
	switch os.Args[1] {
	case "run":
		os.Exit(run(os.Args[2:]))
	case "replay":
		os.Exit(replay(os.Args[2:]))
	case "build":
		fs := flag.NewFlagSet("build", flag.ExitOnError)
		race := fs.Bool("race", false, "race build")
		name := fs.String("name", "manual", "work dir name")
		fs.Parse(os.Args[2:])
		b := prepare(*name, *race)
		fmt.Println(b.bin)
	case "selftest":
		os.Exit(selftest(os.Args[2:]))
	default:
		die("unknown command %s", os.Args[1])
	}
}

// ---------------------------------------------------------------- build

type built struct {
	work     string
	bin      string
	treeHash string
	race     bool
}

func goEnv() []string {
	env := os.Environ()
	env = append(env, "GOFLAGS=-mod=mod", "GOPROXY=off", "GOSUMDB=off", "GOTOOLCHAIN=local", "CGO_ENABLED=1")
	return env
}

func runCmd(dir string, env []string, name string, args ...string) (string, error) {
	cmd := exec.Command(name, args...)
	cmd.Dir = dir
	cmd.Env = env
	var buf bytes.Buffer
	cmd.Stdout = &buf
	cmd.Stderr = &buf
	err := cmd.Run()
	return buf.String(), err
}

// copyTree copies the non-test Go sources of the working tree and returns a
// content hash.
func copyTree(dst string) string {
	h := sha256.New()
	var files []string
	err := filepath.Walk(repoDir, func(p string, info os.FileInfo, err error) error {
		if err != nil {
			return err
		}
		rel, _ := filepath.Rel(repoDir, p)
		if info.IsDir() {
			if info.Name() == ".git" || (strings.HasPrefix(info.Name(), ".") && rel != ".") || info.Name() == "testdata" || info.Name() == "vendor" {
				return filepath.SkipDir
			}
			return nil
		}
		base := info.Name()
		if base == "go.mod" || base == "go.sum" {
			files = append(files, rel)
			return nil
		}
		if !strings.HasSuffix(base, ".go") || strings.HasSuffix(base, "_test.go") {
			return nil
		}
		if rel == "service/websocket.go" {
			// HTTP/websocket front end: not part of any simulated world
			return nil
		}
		files = append(files, rel)
		return nil
	})
	if err != nil {
		die("walking %s: %v", repoDir, err)
	}
	sort.Strings(files)
	for _, rel := range files {
		b, err := os.ReadFile(filepath.Join(repoDir, rel))
		if err != nil {
			die("read %s: %v", rel, err)
		}
		fmt.Fprintf(h, "%s %d\n", rel, len(b))
		h.Write(b)
		if rel == "go.mod" {
			// generic helpers need go >= 1.18; stay below 1.22 so that loop
			// variable semantics are those of the library's language version
			lines := strings.Split(string(b), "\n")
			for i, l := range lines {
				if strings.HasPrefix(l, "go 1.") {
					lines[i] = "go 1.18"
				}
			}
			b = []byte(strings.Join(lines, "\n"))
		}
		out := filepath.Join(dst, rel)
		os.MkdirAll(filepath.Dir(out), 0o755)
		if err := os.WriteFile(out, b, 0o644); err != nil {
			die("write %s: %v", out, err)
		}
	}
	return fmt.Sprintf("%x", h.Sum(nil))[:16]
}

func prepare(name string, race bool) *built {
	work := filepath.Join(verifDir, ".work", name)
	os.MkdirAll(work, 0o755)
	// one check per work directory at a time
	lock, err := os.OpenFile(filepath.Join(work, ".lock"), os.O_CREATE|os.O_RDWR, 0o644)
	if err != nil {
		die("lock: %v", err)
	}
	if err := syscall.Flock(int(lock.Fd()), syscall.LOCK_EX); err != nil {
		die("flock: %v", err)
	}
	repoCopy := filepath.Join(work, "repo")
	os.RemoveAll(repoCopy)
	os.MkdirAll(repoCopy, 0o755)
	tree := copyTree(repoCopy)
	env := goEnv()
	if out, err := runCmd(verifDir, env, filepath.Join(verifDir, "bin", "vrewrite"), repoCopy); err != nil {
		die("rewriting the tree for the simulator failed (unmodelled construct or type error):\n%s", out)
	}
	simDir := filepath.Join(verifDir, "sim")
	mod, err := os.ReadFile(filepath.Join(simDir, "go.mod"))
	if err != nil {
		die("%v", err)
	}
	lines := strings.Split(string(mod), "\n")
	var keep []string
	for _, l := range lines {
		if strings.HasPrefix(l, "replace github.com/mdzio/go-mqtt") {
			continue
		}
		keep = append(keep, l)
	}
	keep = append(keep, "replace github.com/mdzio/go-mqtt => "+repoCopy, "")
	modfile := filepath.Join(work, "go.mod")
	os.WriteFile(modfile, []byte(strings.Join(keep, "\n")), 0o644)
	if sum, err := os.ReadFile(filepath.Join(simDir, "go.sum")); err == nil {
		os.WriteFile(filepath.Join(work, "go.sum"), sum, 0o644)
	}
	bin := filepath.Join(work, "vsim")
	args := []string{"build", "-tags", "verif", "-modfile=" + modfile, "-o", bin}
	if race {
		// only the library (and the tiny touch package) is instrumented: the
		// simulator's own memory is invisible to ThreadSanitizer
		args = append(args, "-race")
		// (shim/atomic and instr/touch stay instrumented: the atomic operations of
		// the library must reach ThreadSanitizer, and so must the transport's
		// accesses to the buffers the library hands to Read/Write)
		for _, p := range []string{"simrt", "shim/sync", "shim/time", "shim/net", "simnet", "refmqtt", "world/...", "cmd/..."} {
			args = append(args, "-gcflags=verif/sim/"+p+"=-race=false")
		}
		bin += "-race"
		args[5] = bin
	}
	args = append(args, "./cmd/vsim")
	if out, err := runCmd(simDir, env, "go", args...); err != nil {
		die("building the simulation worker against the rewritten tree failed:\n%s", out)
	}
	return &built{work: work, bin: bin, treeHash: tree, race: race}
}

// ---------------------------------------------------------------- known findings

type finding struct {
	Property  string `json:"property"`
	Signature string `json:"signature"` // exact, or prefix ending in *
	What      string `json:"what"`
	Status    string `json:"status"` // open | fixed
	Commit    string `json:"commit,omitempty"`
}

func loadFindings() []finding {
	b, err := os.ReadFile(filepath.Join(verifDir, "known_findings.json"))
	if err != nil {
		return nil
	}
	var f struct {
		Findings []finding `json:"findings"`
	}
	if err := json.Unmarshal(b, &f); err != nil {
		die("known_findings.json: %v", err)
	}
	return f.Findings
}

func matchFinding(fs []finding, prop, sig string) *finding {
	for i := range fs {
		f := &fs[i]
		if f.Property != prop || f.Status != "open" {
			continue
		}
		if globMatch(f.Signature, sig) {
			return f
		}
	}
	return nil
}

// globMatch matches sig against a pattern in which * stands for any
// (possibly empty) sequence of characters.
func globMatch(pat, s string) bool {
	parts := strings.Split(pat, "*")
	if len(parts) == 1 {
		return pat == s
	}
	if !strings.HasPrefix(s, parts[0]) {
		return false
	}
	s = s[len(parts[0]):]
	for i := 1; i < len(parts)-1; i++ {
		k := strings.Index(s, parts[i])
		if k < 0 {
			return false
		}
		s = s[k+len(parts[i]):]
	}
	return strings.HasSuffix(s, parts[len(parts)-1])
}

// ---------------------------------------------------------------- run

type violation struct {
	Prop      string `json:"prop"`
	Invariant string `json:"invariant"`
	Sig       string `json:"sig"`
	Detail    string `json:"detail"`
}

type violationRec struct {
	Index     int       `json:"index"`
	Violation violation `json:"violation"`
	Steps     int       `json:"steps"`
	Strategy  string    `json:"strategy"`
}

type summary struct {
	Worker     int                      `json:"worker"`
	Runs       int                      `json:"runs"`
	Nontrivial int                      `json:"nontrivial"`
	Aborted    map[string]int           `json:"aborted"`
	Status     map[string]int           `json:"status"`
	Probes     map[string]int           `json:"probes"`
	Faults     map[string]int           `json:"faults"`
	Strategies map[string]int           `json:"strategies"`
	Steps      int64                    `json:"steps"`
	Switches   int64                    `json:"switches"`
	VTimeNs    int64                    `json:"vtime_ns"`
	Side       map[string]int           `json:"side"`
	Own        map[string]int           `json:"own"`
	Samples    []map[string]interface{} `json:"samples"`
	Rechecks   int                      `json:"rechecks"`
	Nondet     int                      `json:"nondeterministic"`
	Abandoned  int                      `json:"abandoned_tasks"`
	WallS      float64                  `json:"wall_s"`
	NextIndex  int                      `json:"next_index"`
	Enumerated int                      `json:"enumerated"`
	Porcupine  map[string]int           `json:"porcupine"`
}

type propInfo struct {
	Prop        string   `json:"prop"`
	World       string   `json:"world"`
	Level       string   `json:"level"`
	Quick       int      `json:"quick"`
	Thorough    int      `json:"thorough"`
	Rule        string   `json:"rule"`
	Real        []string `json:"real"`
	Stub        []string `json:"stub"`
	Assumptions []string `json:"assumptions"`
	MustProbes  []string `json:"must_probes"`
}

func addMap(dst, src map[string]int) {
	for k, v := range src {
		dst[k] += v
	}
}

type workerResult struct {
	died      bool
	lastBegin int
	stderr    string
	exitErr   error
	watchdog  bool
}

func run(args []string) int {
	fs := flag.NewFlagSet("run", flag.ExitOnError)
	tier := fs.String("tier", "", "quick or thorough (default: $VERIF_TIER or quick)")
	seedF := fs.String("seed", "", "seed (default: $VERIF_SEED or 1)")
	workers := fs.Int("workers", 0, "worker processes (default: number of CPUs)")
	count := fs.Int("count", 0, "number of runs (default: per property and tier)")
	seconds := fs.Int("seconds", 0, "wall-clock cap for the exploration phase")
	race := fs.Bool("race", false, "build the worker with -race")
	noEvidence := fs.Bool("no-evidence", false, "do not write the evidence file")
	fs.Parse(reorder(args))
	if fs.NArg() != 1 {
		die("usage: vcheck run <property> [--tier quick|thorough]")
	}
	prop := fs.Arg(0)
	if *tier == "" {
		*tier = os.Getenv("VERIF_TIER")
	}
	if *tier != "thorough" {
		*tier = "quick"
	}
	seedS := *seedF
	if seedS == "" {
		seedS = os.Getenv("VERIF_SEED")
	}
	var seed uint64 = 1
	if seedS != "" {
		if v, err := strconv.ParseInt(seedS, 0, 64); err == nil {
			seed = uint64(v)
		} else if u, err := strconv.ParseUint(seedS, 0, 64); err == nil {
			seed = u
		} else {
			die("VERIF_SEED %q is not an integer", seedS)
		}
	}
	if *workers == 0 {
		*workers = runtime.NumCPU()
	}
	t0 := time.Now()
	isRace := *race || prop == "C18"
	b := prepare(prop+"-"+*tier, isRace)
	tBuild := time.Since(t0)

	// property metadata
	out, err := runCmd(b.work, os.Environ(), b.bin, "props")
	if err != nil {
		die("worker props: %v\n%s", err, out)
	}
	var info *propInfo
	for _, l := range strings.Split(out, "\n") {
		var pi propInfo
		if json.Unmarshal([]byte(l), &pi) == nil && pi.Prop == prop {
			info = &pi
		}
	}
	if info == nil {
		die("property %s has no registered world", prop)
	}
	n := *count
	if n == 0 {
		n = info.Quick
		if *tier == "thorough" {
			n = info.Thorough
		}
	}
	capS := *seconds
	if capS == 0 {
		capS = 150
		if *tier == "thorough" {
			capS = 2400
		}
	}
	deadline := time.Now().Add(time.Duration(capS) * time.Second).Unix()
	hashFile := filepath.Join(b.work, "hashes.bin")
	os.Remove(hashFile)

	var mu sync.Mutex
	total := &summary{Aborted: map[string]int{}, Status: map[string]int{}, Probes: map[string]int{}, Faults: map[string]int{}, Strategies: map[string]int{}, Side: map[string]int{}, Own: map[string]int{}, Porcupine: map[string]int{}}
	var viols []violationRec
	var nondet []int
	results := make([]workerResult, *workers)
	var wg sync.WaitGroup
	for w := 0; w < *workers; w++ {
		wg.Add(1)
		go func(w int) {
			defer wg.Done()
			wargs := []string{"batch", "-prop", prop, "-tier", *tier, "-seed", fmt.Sprint(seed), "-worker", fmt.Sprint(w), "-workers", fmt.Sprint(*workers), "-count", fmt.Sprint(n), "-deadline", fmt.Sprint(deadline), "-hashes", hashFile + "." + fmt.Sprint(w)}
			cmd := exec.Command(b.bin, wargs...)
			if !isRace {
				// a host with 8 GiB of address space per broker process: an
				// allocation sized by an attacker's length field beyond that
				// kills the worker like it would kill a real broker (the
				// race-detector runtime cannot run under such a limit)
				cmd = exec.Command("/bin/sh", append([]string{"-c", `ulimit -v 8388608; exec "$0" "$@"`, b.bin}, wargs...)...)
			}
			cmd.Env = append(os.Environ(), "GOMAXPROCS=1", "GORACE=halt_on_error=0 exitcode=0 history_size=2", "GOTRACEBACK=single")
			stdout, _ := cmd.StdoutPipe()
			var errBuf bytes.Buffer
			cmd.Stderr = &limitedWriter{w: &errBuf, max: 1 << 20}
			if err := cmd.Start(); err != nil {
				results[w] = workerResult{died: true, exitErr: err}
				return
			}
			last := make(chan int64, 1)
			var lastBeat = time.Now().Unix()
			stop := make(chan struct{})
			go func() { // watchdog
				tk := time.NewTicker(5 * time.Second)
				defer tk.Stop()
				for {
					select {
					case <-stop:
						return
					case v := <-last:
						lastBeat = v
					case <-tk.C:
						if time.Now().Unix()-lastBeat > 180 {
							mu.Lock()
							results[w].watchdog = true
							mu.Unlock()
							cmd.Process.Kill()
							return
						}
					}
				}
			}()
			sc := bufio.NewScanner(stdout)
			sc.Buffer(make([]byte, 1<<20), 1<<26)
			lastBegin := -1 << 30
			gotSummary := false
			for sc.Scan() {
				line := sc.Text()
				if len(line) < 2 {
					continue
				}
				switch line[0] {
				case 'B':
					lastBegin, _ = strconv.Atoi(line[2:])
					select {
					case last <- time.Now().Unix():
					default:
					}
				case 'V':
					var v violationRec
					if json.Unmarshal([]byte(line[2:]), &v) == nil {
						mu.Lock()
						viols = append(viols, v)
						mu.Unlock()
					}
				case 'N':
					idx, _ := strconv.Atoi(line[2:])
					mu.Lock()
					nondet = append(nondet, idx)
					mu.Unlock()
				case 'S':
					var s summary
					if err := json.Unmarshal([]byte(line[2:]), &s); err == nil {
						gotSummary = true
						mu.Lock()
						total.Runs += s.Runs
						total.Nontrivial += s.Nontrivial
						addMap(total.Aborted, s.Aborted)
						addMap(total.Status, s.Status)
						addMap(total.Probes, s.Probes)
						addMap(total.Faults, s.Faults)
						addMap(total.Strategies, s.Strategies)
						addMap(total.Side, s.Side)
						addMap(total.Own, s.Own)
						addMap(total.Porcupine, s.Porcupine)
						total.Steps += s.Steps
						total.Switches += s.Switches
						total.VTimeNs += s.VTimeNs
						total.Rechecks += s.Rechecks
						total.Nondet += s.Nondet
						total.Abandoned += s.Abandoned
						total.Enumerated += s.Enumerated
						if len(total.Samples) < 3 {
							for _, sm := range s.Samples {
								if len(total.Samples) < 3 {
									total.Samples = append(total.Samples, sm)
								}
							}
						}
						mu.Unlock()
					}
				}
			}
			err := cmd.Wait()
			close(stop)
			mu.Lock()
			results[w].lastBegin = lastBegin
			results[w].stderr = errBuf.String()
			if err != nil || !gotSummary {
				results[w].died = true
				results[w].exitErr = err
			}
			mu.Unlock()
		}(w)
	}
	wg.Wait()
	explS := time.Since(t0).Seconds() - tBuild.Seconds()

	// distinct schedule hashes / state signatures
	hs, ss := map[uint64]struct{}{}, map[uint64]struct{}{}
	for w := 0; w < *workers; w++ {
		f := hashFile + "." + fmt.Sprint(w)
		if data, err := os.ReadFile(f); err == nil {
			for i := 0; i+9 <= len(data); i += 9 {
				v := binary.LittleEndian.Uint64(data[i+1:])
				if data[i] == 'h' {
					hs[v] = struct{}{}
				} else {
					ss[v] = struct{}{}
				}
			}
		}
		os.Remove(f)
	}

	findings := loadFindings()
	exit := 0
	var infra []string

	// race reports (C18 worlds print them on stderr)
	var raceViol []raceReport
	if isRace {
		for w := range results {
			raceViol = append(raceViol, parseRaceReports(results[w].stderr)...)
		}
	}

	// dead or hung workers
	for w, r := range results {
		if r.watchdog {
			infra = append(infra, fmt.Sprintf("worker %d made no progress for 180 s inside run %d and was killed (watchdog)", w, r.lastBegin))
			continue
		}
		if r.died {
			first := firstFatalLine(r.stderr)
			if prop == "C05" && strings.Contains(r.stderr, "fatal error") {
				sig := "C05/process-died/" + first
				viols = append(viols, violationRec{Index: r.lastBegin, Violation: violation{Prop: "C05", Invariant: "process-alive", Sig: sig, Detail: "the worker process died with a Go fatal error while executing this run: " + tail(r.stderr, 1500)}})
				total.Own[sig]++
				continue
			}
			infra = append(infra, fmt.Sprintf("worker %d died (%v) in run %d: %s", w, r.exitErr, r.lastBegin, tail(r.stderr, 800)))
		}
	}

	// group violations by signature
	bySig := map[string][]violationRec{}
	var sigs []string
	for _, v := range viols {
		if _, ok := bySig[v.Violation.Sig]; !ok {
			sigs = append(sigs, v.Violation.Sig)
		}
		bySig[v.Violation.Sig] = append(bySig[v.Violation.Sig], v)
	}
	sort.Strings(sigs)
	os.MkdirAll(filepath.Join(verifDir, "replays"), 0o755)
	knownSeen := map[string]int{}
	reported := 0
	var reportedSigs []string
	for _, sig := range sigs {
		recs := bySig[sig]
		sort.Slice(recs, func(i, j int) bool { return recs[i].Steps < recs[j].Steps })
		if f := matchFinding(findings, prop, sig); f != nil {
			if knownSeen[f.Signature] == 0 {
				fmt.Printf("KNOWN-FINDING: property=%s %s [%s] (seen in %d run(s), e.g. index %d)\n", prop, f.What, f.Signature, total.Own[sig], recs[0].Index)
			}
			knownSeen[f.Signature] += total.Own[sig]
			if os.Getenv("VCHECK_SHOW_KNOWN") != "" {
				fmt.Printf("  known: %s (%d run(s)) matches %s\n", sig, total.Own[sig], f.Signature)
			}
			continue
		}
		exit = 1
		reportedSigs = append(reportedSigs, sig)
		reported++
		budget := "1500"
		if reported > 4 {
			budget = "1" // further signatures: replay file without minimisation
		}
		rec := recs[0]
		file := filepath.Join(verifDir, "replays", fmt.Sprintf("%s-%d-%s-%s.json", prop, seed, idxName(rec.Index), short(sig)))
		if strings.HasPrefix(sig, "C05/process-died/") {
			// cannot be minimised in-process: the replay file names the run
			rp := map[string]interface{}{"property": prop, "seed": seed, "index": rec.Index, "tier": *tier, "violation": rec.Violation, "note": "the run kills the worker process; replay with: vsim one -prop C05 -seed <seed> -index <index>"}
			bb, _ := json.MarshalIndent(rp, "", " ")
			os.WriteFile(file, bb, 0o644)
			fmt.Printf("VIOLATION property=%s replay=%s\n  %s\n", prop, file, rec.Violation.Detail)
			continue
		}
		sout, serr := runCmd(b.work, append(os.Environ(), "GOMAXPROCS=1"), b.bin, "shrink", "-prop", prop, "-tier", *tier, "-seed", fmt.Sprint(seed), "-index", fmt.Sprint(rec.Index), "-sig", sig, "-out", file, "-tree", b.treeHash, "-budget", budget)
		if serr != nil {
			infra = append(infra, fmt.Sprintf("violation %s of run %d did not reproduce in a fresh process (nondeterminism?): %s", sig, rec.Index, tail(sout, 600)))
			fmt.Printf("UNREPRODUCED property=%s signature=%s index=%d detail=%s\n", prop, sig, rec.Index, rec.Violation.Detail)
			continue
		}
		rout, _ := runCmd(b.work, append(os.Environ(), "GOMAXPROCS=1"), b.bin, "replay", "-file", file)
		if !strings.Contains(rout, "VIOLATION property="+prop) {
			infra = append(infra, fmt.Sprintf("replay file %s does not reproduce: %s", file, tail(rout, 600)))
			continue
		}
		fmt.Print(rout)
		fmt.Printf("  (%s; %d run(s) with this signature in this batch)\n", strings.TrimSpace(sout), total.Own[sig])
	}

	// race violations
	raceSeen := map[string]bool{}
	for _, rr := range raceViol {
		if raceSeen[rr.sig] {
			continue
		}
		raceSeen[rr.sig] = true
		total.Own[rr.sig]++
		if f := matchFinding(findings, prop, rr.sig); f != nil {
			if knownSeen[f.Signature] == 0 {
				fmt.Printf("KNOWN-FINDING: property=%s %s [%s]\n", prop, f.What, f.Signature)
			}
			knownSeen[f.Signature]++
			continue
		}
		exit = 1
		reportedSigs = append(reportedSigs, rr.sig)
		file := filepath.Join(verifDir, "replays", fmt.Sprintf("%s-%d-race-%s.json", prop, seed, short(rr.sig)))
		rp := map[string]interface{}{"property": prop, "seed": seed, "index": rr.index, "tier": *tier, "signature": rr.sig, "report": rr.text,
			"note": "re-run: bin/vcheck run C18 --seed <seed> --count <index+1>; the run with this index prints the same report (serialised, seeded schedule)"}
		bb, _ := json.MarshalIndent(rp, "", " ")
		os.WriteFile(file, bb, 0o644)
		fmt.Printf("VIOLATION property=%s replay=%s\n  data race %s\n%s\n", prop, file, rr.sig, indent(tail(rr.text, 1800)))
	}

	// infrastructure conditions
	if total.Nondet > 0 {
		infra = append(infra, fmt.Sprintf("%d of %d re-executed runs were not deterministic (indices %v)", total.Nondet, total.Rechecks, nondet))
	}
	abortedN := 0
	for _, v := range total.Aborted {
		abortedN += v
	}
	if total.Runs > 0 && abortedN*50 > total.Runs {
		infra = append(infra, fmt.Sprintf("%d of %d runs were aborted (%v): the check is not exploring properly", abortedN, total.Runs, total.Aborted))
	}
	if total.Runs == 0 {
		infra = append(infra, "no run was executed")
	}
	if *tier == "thorough" && exit == 0 {
		for _, p := range info.MustProbes {
			if total.Probes[p] == 0 {
				infra = append(infra, fmt.Sprintf("probe %q was never reached in a thorough batch: workload or fault mix is not reaching the interesting states", p))
			}
		}
	}

	wall := time.Since(t0).Seconds()
	if !*noEvidence {
		writeEvidence(prop, *tier, seed, info, total, len(hs), len(ss), wall, explS, tBuild.Seconds(), b, *workers, knownSeen, reportedSigs, infra, isRace)
	}
	fmt.Printf("%s %s: %d runs (%d enumerated) in %.1fs (build %.1fs), %d non-trivial, %d distinct schedules, %d state signatures, %.0f s simulated, faults %v, violations: %d signature(s), known findings seen: %d, side observations: %v\n",
		prop, *tier, total.Runs, total.Enumerated, wall, tBuild.Seconds(), total.Nontrivial, len(hs), len(ss), float64(total.VTimeNs)/1e9, total.Faults, len(reportedSigs), len(knownSeen), sideTop(total.Side))
	if len(infra) > 0 && exit == 0 {
		for _, m := range infra {
			fmt.Printf("INFRASTRUCTURE-ERROR: %s\n", m)
		}
		return 2
	}
	for _, m := range infra {
		fmt.Printf("NOTE: %s\n", m)
	}
	return exit
}

func sideTop(m map[string]int) []string {
	var ks []string
	for k, v := range m {
		ks = append(ks, fmt.Sprintf("%s×%d", k, v))
	}
	sort.Strings(ks)
	if len(ks) > 8 {
		ks = append(ks[:8], "…")
	}
	return ks
}

func idxName(i int) string {
	if i < 0 {
		return fmt.Sprintf("e%d", -1-i)
	}
	return fmt.Sprint(i)
}

func short(s string) string {
	h := sha256.Sum256([]byte(s))
	return fmt.Sprintf("%x", h[:5])
}

func indent(s string) string {
	return "    " + strings.ReplaceAll(s, "\n", "\n    ")
}

func tail(s string, n int) string {
	s = strings.TrimSpace(s)
	if len(s) > n {
		return "…" + s[len(s)-n:]
	}
	return s
}

func firstFatalLine(s string) string {
	for _, l := range strings.Split(s, "\n") {
		if strings.HasPrefix(l, "fatal error:") || strings.HasPrefix(l, "runtime:") {
			return strings.TrimSpace(l)
		}
	}
	return "unknown"
}

type limitedWriter struct {
	w   io.Writer
	max int
	n   int
}

func (l *limitedWriter) Write(p []byte) (int, error) {
	if l.n < l.max {
		k := len(p)
		if l.n+k > l.max {
			k = l.max - l.n
		}
		l.w.Write(p[:k])
		l.n += k
	}
	return len(p), nil
}

// reorder lets flags follow the positional argument.
func reorder(args []string) []string {
	var flags, pos []string
	for i := 0; i < len(args); i++ {
		a := args[i]
		if strings.HasPrefix(a, "-") {
			flags = append(flags, a)
			if !strings.Contains(a, "=") && i+1 < len(args) && !strings.HasPrefix(args[i+1], "-") && a != "--race" && a != "-race" && a != "--no-evidence" && a != "-no-evidence" {
				flags = append(flags, args[i+1])
				i++
			}
		} else {
			pos = append(pos, a)
		}
	}
	return append(flags, pos...)
}

// ---------------------------------------------------------------- race reports

type raceReport struct {
	sig   string
	text  string
	index int
}

// parseRaceReports extracts ThreadSanitizer reports from a worker's stderr
// and keeps those whose two accesses are both performed by library code.
func parseRaceReports(stderr string) (out0 []raceReport) {
	var out []raceReport
	defer func() { out0 = out }()
	blocks := strings.Split(stderr, "==================")
	index := -1
	// run tags are printed when a run ends, i.e. after its reports
	tags := map[int]string{}
	for _, l := range strings.Split(stderr, "\n") {
		if strings.HasPrefix(l, "RUNTAG ") {
			f := strings.Fields(l)
			if len(f) == 3 {
				i, _ := strconv.Atoi(f[1])
				tags[i] = f[2]
			}
		}
	}
	defer func() {
		for i := range out {
			if t := tags[out[i].index]; t != "" {
				out[i].sig += "/run-with-" + t
			}
		}
	}()
	for _, blk := range blocks {
		// run markers written by the worker on stderr: "RUN <index>"
		for _, l := range strings.Split(blk, "\n") {
			if strings.HasPrefix(l, "RUN ") {
				index, _ = strconv.Atoi(strings.TrimSpace(l[4:]))
			}
		}
		if !strings.Contains(blk, "WARNING: DATA RACE") {
			continue
		}
		lines := strings.Split(blk, "\n")
		var acc []string // innermost frame + kind of the two accesses
		for i := 0; i < len(lines); i++ {
			l := lines[i]
			lt := strings.TrimSpace(l)
			isAcc := (strings.HasPrefix(lt, "Read at") || strings.HasPrefix(lt, "Write at") || strings.HasPrefix(lt, "Previous read at") || strings.HasPrefix(lt, "Previous write at") || strings.HasPrefix(lt, "Atomic") || strings.HasPrefix(lt, "Previous atomic"))
			if !isAcc {
				continue
			}
			kind := "read"
			if strings.Contains(strings.ToLower(lt), "write") {
				kind = "write"
			}
			// innermost non-runtime, non-harness frame
			fn := ""
			for j := i + 1; j < len(lines); j++ {
				f := strings.TrimSpace(lines[j])
				if f == "" {
					break
				}
				if strings.HasPrefix(f, "/") || strings.HasPrefix(f, "Goroutine") {
					continue
				}
				name := strings.TrimSuffix(f, "()")
				// the access is attributed to the innermost library frame: what
				// lies above it is the standard library or the simulated
				// transport acting on the library's behalf
				if !strings.Contains(name, "github.com/mdzio/go-mqtt/") {
					continue
				}
				fn = name
				break
			}
			acc = append(acc, kind+" "+fn)
		}
		if len(acc) < 2 {
			continue
		}
		lib := func(s string) bool {
			if !strings.Contains(s, "github.com/mdzio/go-mqtt/") {
				return false
			}
			// the process-wide provider registries are plain maps filled at
			// start-up (and by the harness between runs); they are not broker
			// state shared by concurrent clients
			for _, reg := range []string{"topics.Register", "topics.Unregister", "topics.NewManager", "sessions.Register", "sessions.Unregister", "sessions.NewManager", "auth.Register", "auth.Unregister", "auth.NewManager"} {
				if strings.HasSuffix(s, "/"+reg) {
					return false
				}
			}
			return true
		}
		if !lib(acc[0]) || !lib(acc[1]) {
			continue
		}
		a := []string{strings.ReplaceAll(acc[0], "github.com/mdzio/go-mqtt/", ""), strings.ReplaceAll(acc[1], "github.com/mdzio/go-mqtt/", "")}
		sort.Strings(a)
		out = append(out, raceReport{sig: "C18/race/" + a[0] + "~" + a[1], text: strings.TrimSpace(blk), index: index})
	}
	return out
}

// ---------------------------------------------------------------- evidence

func writeEvidence(prop, tier string, seed uint64, info *propInfo, t *summary, distinct, states int, wall, explS, buildS float64, b *built, workers int, known map[string]int, reported []string, infra []string, race bool) {
	abortedN := 0
	for _, v := range t.Aborted {
		abortedN += v
	}
	dn := distinct
	if dn > t.Nontrivial {
		dn = t.Nontrivial
	}
	cov := map[string]interface{}{
		"evaluations":                 t.Runs,
		"distinct_nontrivial":         dn,
		"rule":                        info.Rule,
		"samples":                     t.Samples,
		"enumerated_scripts":          t.Enumerated,
		"nontrivial_runs":             t.Nontrivial,
		"distinct_schedules":          distinct,
		"distinct_states":             states,
		"runs_per_hour":               int(float64(t.Runs) / (explS + 0.001) * 3600),
		"seeds":                       fmt.Sprintf("VERIF_SEED=%d, run indices 0..%d (per-run seed = splitmix(VERIF_SEED, property, index))", seed, t.Runs),
		"sim_time_s":                  float64(t.VTimeNs) / 1e9,
		"scheduling_points":           t.Steps,
		"task_switches":               t.Switches,
		"faults_fired":                t.Faults,
		"probes":                      t.Probes,
		"strategies":                  t.Strategies,
		"run_status":                  t.Status,
		"aborted_runs":                t.Aborted,
		"determinism_rechecks":        map[string]int{"reexecuted": t.Rechecks, "mismatches": t.Nondet},
		"components":                  map[string]interface{}{"real": info.Real, "stub": info.Stub},
		"known_findings_seen":         known,
		"violation_signatures":        reported,
		"other_property_observations": t.Side,
		"workers":                     workers,
		"build_s":                     buildS,
		"tree_hash":                   b.treeHash,
		"race_build":                  race,
		"infrastructure_notes":        infra,
		"exhaustive":                  false,
	}
	if len(t.Porcupine) > 0 {
		cov["porcupine"] = t.Porcupine
	}
	if t.Samples == nil {
		cov["samples"] = []interface{}{}
	}
	ev := map[string]interface{}{
		"property_id": prop,
		"tier":        tier,
		"seed":        int64(seed),
		"level":       info.Level,
		"coverage":    cov,
		"assumptions": info.Assumptions,
		"wall_s":      wall,
		"violations":  len(reported),
	}
	bb, _ := json.MarshalIndent(ev, "", " ")
	os.MkdirAll(filepath.Join(verifDir, "evidence"), 0o755)
	if err := os.WriteFile(filepath.Join(verifDir, "evidence", prop+".json"), bb, 0o644); err != nil {
		die("writing evidence: %v", err)
	}
}

// ---------------------------------------------------------------- replay

func replay(args []string) int {
	if len(args) < 1 {
		die("usage: vcheck replay <file> [-v]")
	}
	file := args[0]
	data, err := os.ReadFile(file)
	if err != nil {
		die("%v", err)
	}
	var rp struct {
		Prop string `json:"property"`
	}
	if err := json.Unmarshal(data, &rp); err != nil {
		die("%v", err)
	}
	b := prepare("replay", rp.Prop == "C18")
	a := []string{"replay", "-file", file}
	if len(args) > 1 && args[1] == "-v" {
		a = append(a, "-v")
	}
	cmd := exec.Command(b.bin, a...)
	cmd.Env = append(os.Environ(), "GOMAXPROCS=1")
	cmd.Stdout = os.Stdout
	cmd.Stderr = os.Stderr
	err = cmd.Run()
	if ee, ok := err.(*exec.ExitError); ok {
		return ee.ExitCode()
	}
	if err != nil {
		die("%v", err)
	}
	return 0
}

// ---------------------------------------------------------------- selftest

// selftest proves determinism: the same seeds executed in separate processes
// under different GOMAXPROCS must produce identical fingerprints.
func selftest(args []string) int {
	fs := flag.NewFlagSet("selftest", flag.ExitOnError)
	n := fs.Int("n", 60, "seeds per property")
	props := fs.String("props", "", "comma separated properties (default all)")
	race := fs.Bool("race", false, "also with a -race build")
	fs.Parse(args)
	b := prepare("selftest", false)
	var br *built
	if *race {
		br = prepare("selftest-race", true)
	}
	out, _ := runCmd(b.work, os.Environ(), b.bin, "props")
	var list []string
	for _, l := range strings.Split(out, "\n") {
		var pi propInfo
		if json.Unmarshal([]byte(l), &pi) == nil && pi.Prop != "" {
			if *props == "" || strings.Contains(","+*props+",", ","+pi.Prop+",") {
				list = append(list, pi.Prop)
			}
		}
	}
	bad := 0
	for _, p := range list {
		ref := ""
		type cfg struct {
			bin   string
			procs string
		}
		cfgs := []cfg{{b.bin, "1"}, {b.bin, "4"}, {b.bin, "16"}, {b.bin, "1"}}
		if br != nil {
			cfgs = append(cfgs, cfg{br.bin, "1"}, cfg{br.bin, "16"})
		}
		for ci, c := range cfgs {
			var all strings.Builder
			for i := 0; i < *n; i++ {
				o, _ := runCmd(b.work, append(os.Environ(), "GOMAXPROCS="+c.procs, "GORACE=halt_on_error=0"), c.bin, "one", "-prop", p, "-index", fmt.Sprint(i), "-tier", []string{"quick", "thorough"}[i%2])
				for _, l := range strings.Split(o, "\n") {
					if strings.HasPrefix(l, "status=") || strings.HasPrefix(l, "VIOL") {
						all.WriteString(l + "\n")
					}
				}
			}
			if ci == 0 {
				ref = all.String()
			} else if all.String() != ref {
				bad++
				fmt.Printf("NONDETERMINISM property=%s config=%v\n", p, c)
				a, bb := strings.Split(ref, "\n"), strings.Split(all.String(), "\n")
				for i := range a {
					if i < len(bb) && a[i] != bb[i] {
						fmt.Printf("  ref: %s\n  got: %s\n", a[i], bb[i])
						break
					}
				}
			}
		}
		fmt.Printf("selftest %s: %d seeds x %d process configurations compared\n", p, *n, len(cfgs))
	}
	if bad > 0 {
		return 2
	}
	return 0
}
