#!/bin/sh
# Builds the verification tools from files on disk (offline) and warms the Go
# build cache for the normal and the -race worker.
set -e
cd "$(dirname "$0")/.."
export GOFLAGS=-mod=mod GOPROXY=off GOSUMDB=off GOTOOLCHAIN=local CGO_ENABLED=1
mkdir -p bin evidence replays .work
(cd tools && go build -o ../bin/vrewrite ./cmd/vrewrite && go build -o ../bin/vcheck ./cmd/vcheck)
bin/vcheck build --name warm >/dev/null
bin/vcheck build --name warm --race >/dev/null
rm -rf .work/warm
echo "setup ok"
