#!/bin/sh
# Runs the thorough tier of every claimed property (used with `vp run`).
cd "$(dirname "$0")/.."
tools/setup.sh >/dev/null
seed=${1:-1}
for p in C14 C15 C06 C13 C01 C02 C05 C07 C08 C09 C10 C11 C12 C16 C17 C19 C20 C18; do
  VERIF_SEED=$seed bin/vcheck run $p --tier thorough --no-evidence > thorough_$p.log 2>&1
  echo "$p seed=$seed exit=$? $(grep -E "^$p thorough" thorough_$p.log | cut -c1-200)"
  grep -E "^VIOLATION|INFRASTRUCTURE" thorough_$p.log | head -5
done
