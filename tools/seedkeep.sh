#!/bin/sh
# usage: seedkeep.sh <agent out dir/mN> <seed id> <property> [more properties to run...]
# verifies the change and, if confirmed, stores it under /verif/seeded/<seed id>/
src=$1; id=$2; shift 2
out=/verif/seeded/$id
mkdir -p $out
/verif/tools/seedverify.py $src "$@" > /tmp/seedverify-$id.json || { cat /tmp/seedverify-$id.json; exit 1; }
cp $src/patch.diff $out/patch.diff
for f in $src/*_test.go $src/demo*.go; do [ -f "$f" ] && cp $f $out/; done
[ -f $src/notes.md ] && cp $src/notes.md $out/notes.md
python3 - "$id" "$1" <<'PY'
import json,sys
id,prop=sys.argv[1],sys.argv[2]
r=json.load(open(f'/tmp/seedverify-{id}.json'))
notes=''
try: notes=open(f'/verif/seeded/{id}/notes.md').read()
except Exception: pass
caught=[k for k,v in r.get('checks',{}).items() if v['exit']==1]
meta={"id":id,"property":prop,"written_by":"independent sub-agent given only the property text and a scratch worktree",
 "needs_to_manifest":"see notes.md","confirmed":{"applies":r.get('applies'),"builds":r.get('builds'),"pinned_suite":r.get('baseline'),
 "demo_command":r.get('demo_cmd'),"demo_fails_with_patch":r.get('demo_fails_with_patch'),"demo_passes_without_patch":r.get('demo_passes_without_patch')},
 "checks_run":r.get('checks'),"caught_by":caught}
json.dump(meta,open(f'/verif/seeded/{id}/meta.json','w'),indent=1)
print(id,prop,"demo fails/passes:",r.get('demo_fails_with_patch'),r.get('demo_passes_without_patch'),"baseline:",r.get('baseline'),"caught_by:",caught, {k:v['signatures'][:3] for k,v in r.get('checks',{}).items()})
PY
