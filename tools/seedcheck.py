#!/usr/bin/env python3
"""Applies a seeded change to /repo, runs the given checks against it and undoes
the change again.  usage: seedcheck.py <patch.diff> [--thorough] <prop>...
Prints, per property, exit code, violation signatures and time."""
import subprocess, sys, time, re, os
args = sys.argv[1:]
patch = args.pop(0)
thorough = False
if args and args[0] == "--thorough":
    thorough = True
    args.pop(0)
props = args
def sh(cmd, **kw):
    return subprocess.run(cmd, shell=True, capture_output=True, text=True, **kw)
# a scratch worktree of /repo's HEAD (so that background runs that read /repo
# itself are not disturbed); removed again at the end
WT = f"/tmp/seedwt-{os.getpid()}"
r = sh(f"git -C /repo worktree add -q {WT} HEAD")
if r.returncode != 0:
    sys.exit("worktree: " + r.stderr)
r = sh(f"git -C {WT} apply {patch}")
if r.returncode != 0:
    sh(f"git -C /repo worktree remove --force {WT}")
    sys.exit("patch does not apply: " + r.stderr)
try:
    b = sh(f"cd {WT} && GOFLAGS=-mod=mod GOPROXY=off GOSUMDB=off GOTOOLCHAIN=local go build ./... && go build -tags verif ./...")
    if b.returncode != 0:
        print("BUILD FAILS:", b.stderr[:500])
    for p in props:
        tier = "thorough" if thorough else "quick"
        t0 = time.time()
        r = sh(f"cd /verif && VERIF_REPO={WT} bin/vcheck run {p} --tier {tier} --no-evidence")
        sigs = sorted(set(re.findall(r"signature: (\S+)", r.stdout) + re.findall(r"data race (\S+ \S+)", r.stdout)))
        infra = re.findall(r"INFRASTRUCTURE-ERROR: (.{0,160})", r.stdout)
        print(f"{p} {tier}: exit={r.returncode} {time.time()-t0:.0f}s signatures={sigs[:8]}" + (f" infra={infra[:2]}" if infra else ""))
finally:
    sh(f"git -C /repo worktree remove --force {WT}")
