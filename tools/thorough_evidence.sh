#!/bin/sh
# Runs the thorough tier of every claimed check in /verif against /repo, keeps
# a copy of each evidence file under findings/thorough_evidence/, and then
# restores the quick-tier evidence files.  usage: thorough_evidence.sh <seed>
cd "$(dirname "$0")/.."
seed=${1:-13}
mkdir -p findings/thorough_evidence
for p in C14 C15 C06 C13 C01 C02 C05 C07 C08 C09 C10 C11 C12 C16 C17 C19 C20 C18; do
  VERIF_SEED=$seed bin/vcheck run $p --tier thorough > findings/thorough_evidence/$p.log 2>&1
  echo "$p seed=$seed exit=$? $(grep -E "^$p thorough" findings/thorough_evidence/$p.log | cut -c1-160)"
  cp evidence/$p.json findings/thorough_evidence/$p.json
done
for p in C01 C02 C05 C06 C07 C08 C09 C10 C11 C12 C13 C14 C15 C16 C17 C18 C19 C20; do
  bin/vcheck run $p --tier quick > /dev/null 2>&1 || echo "quick $p exit=$?"
done
echo done
