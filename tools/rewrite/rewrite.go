// Package rewrite puts a scratch copy of the library onto the simulator:
// import substitution (sync, sync/atomic, time, net -> simulator shims), `go`
// statements -> simrt.Go, ranges over maps -> deterministic (choice-stream
// permuted) key order, and refusal of blocking constructs the simulator does
// not model.
package rewrite

import (
	"bytes"
	"fmt"
	"go/ast"
	"go/format"
	"go/token"
	"go/types"
	"os"
	"path/filepath"
	"strconv"
	"strings"

	"golang.org/x/tools/go/ast/astutil"
	"golang.org/x/tools/go/packages"
)

var shimFor = map[string]string{
	"sync":        "verif/sim/shim/sync",
	"sync/atomic": "verif/sim/shim/atomic",
	"time":        "verif/sim/shim/time",
	"net":         "verif/sim/shim/net",
}

// Stats of a rewrite.
type Stats struct {
	Files, Imports, GoStmts, MapRanges int
}

// Refusal is an unmodelled construct.
type Refusal struct{ Pos, What string }

func (r Refusal) Error() string { return r.Pos + ": " + r.What }

// Dir rewrites every package below dir in place.
func Dir(dir string) (*Stats, error) {
	cfg := &packages.Config{
		Mode: packages.NeedName | packages.NeedFiles | packages.NeedSyntax | packages.NeedTypes | packages.NeedTypesInfo | packages.NeedImports | packages.NeedDeps,
		Dir:  dir,
		Env:  append(os.Environ(), "GOFLAGS=-mod=mod", "GOPROXY=off", "GOSUMDB=off"),
	}
	pkgs, err := packages.Load(cfg, "./...")
	if err != nil {
		return nil, err
	}
	st := &Stats{}
	for _, p := range pkgs {
		if len(p.Errors) > 0 {
			return nil, fmt.Errorf("package %s does not type-check: %v", p.PkgPath, p.Errors[0])
		}
		for i, f := range p.Syntax {
			_ = i
			name := p.Fset.Position(f.Package).Filename
			rel, _ := filepath.Rel(dir, name)
			if err := rewriteFile(p, f, rel, st); err != nil {
				return nil, err
			}
			var buf bytes.Buffer
			if err := format.Node(&buf, p.Fset, f); err != nil {
				return nil, fmt.Errorf("%s: %v", rel, err)
			}
			if err := os.WriteFile(name, buf.Bytes(), 0o644); err != nil {
				return nil, err
			}
			st.Files++
		}
	}
	return st, nil
}

type rw struct {
	p       *packages.Package
	rel     string
	st      *Stats
	needSim bool
	tmp     int
	err     error
}

func (r *rw) pos(p token.Pos) string {
	return r.rel + ":" + strconv.Itoa(r.p.Fset.Position(p).Line)
}

func (r *rw) refuse(p token.Pos, what string) {
	if r.err == nil {
		r.err = Refusal{r.pos(p), what}
	}
}

func rewriteFile(p *packages.Package, f *ast.File, rel string, st *Stats) error {
	r := &rw{p: p, rel: rel, st: st}

	// 1. imports
	for _, im := range f.Imports {
		path, _ := strconv.Unquote(im.Path.Value)
		if shim, ok := shimFor[path]; ok {
			if im.Name == nil {
				base := path[strings.LastIndex(path, "/")+1:]
				im.Name = ast.NewIdent(base)
			}
			im.Path.Value = strconv.Quote(shim)
			st.Imports++
		}
	}

	// 2. collect the receive expressions that are the comm of a select with default
	okRecv := map[ast.Node]bool{}
	ast.Inspect(f, func(n ast.Node) bool {
		sel, ok := n.(*ast.SelectStmt)
		if !ok {
			return true
		}
		hasDefault := false
		for _, c := range sel.Body.List {
			if c.(*ast.CommClause).Comm == nil {
				hasDefault = true
			}
		}
		if !hasDefault {
			r.refuse(sel.Pos(), "select without default is a blocking construct the simulator does not model")
			return true
		}
		for _, c := range sel.Body.List {
			switch comm := c.(*ast.CommClause).Comm.(type) {
			case *ast.ExprStmt:
				okRecv[comm.X] = true
			case *ast.AssignStmt:
				if len(comm.Rhs) == 1 {
					okRecv[comm.Rhs[0]] = true
				}
			case *ast.SendStmt:
				okRecv[comm] = true
			}
		}
		return true
	})

	// 3. statements
	astutil.Apply(f, func(c *astutil.Cursor) bool {
		switch n := c.Node().(type) {
		case *ast.SendStmt:
			if !okRecv[n] {
				r.refuse(n.Pos(), "channel send is a blocking construct the simulator does not model")
			}
		case *ast.UnaryExpr:
			if n.Op == token.ARROW && !okRecv[n] {
				r.refuse(n.Pos(), "channel receive is a blocking construct the simulator does not model")
			}
		case *ast.LabeledStmt:
			if rs, ok := n.Stmt.(*ast.RangeStmt); ok && r.isMap(rs.X) && rs.Key != nil {
				r.refuse(n.Pos(), "labelled range over a map is not supported by the rewriter")
			}
		}
		return true
	}, func(c *astutil.Cursor) bool {
		switch n := c.Node().(type) {
		case *ast.GoStmt:
			c.Replace(r.goStmt(n))
		case *ast.RangeStmt:
			if t := r.p.TypesInfo.TypeOf(n.X); t != nil {
				if _, ok := t.Underlying().(*types.Chan); ok {
					r.refuse(n.Pos(), "range over a channel is a blocking construct the simulator does not model")
				}
			}
			if r.isMap(n.X) && (isNamed(n.Key) || isNamed(n.Value)) {
				if _, ok := c.Parent().(*ast.LabeledStmt); !ok {
					c.Replace(r.mapRange(n))
				}
			}
		}
		return true
	})
	if r.err != nil {
		return r.err
	}
	if r.needSim {
		astutil.AddImport(p.Fset, f, "verif/sim/simrt")
	}
	return nil
}

func isNamed(e ast.Expr) bool {
	if e == nil {
		return false
	}
	if id, ok := e.(*ast.Ident); ok && id.Name == "_" {
		return false
	}
	return true
}

func (r *rw) isMap(x ast.Expr) bool {
	t := r.p.TypesInfo.TypeOf(x)
	if t == nil {
		return false
	}
	_, ok := t.Underlying().(*types.Map)
	return ok
}

func (r *rw) fresh(prefix string) *ast.Ident {
	r.tmp++
	return ast.NewIdent(fmt.Sprintf("_v%s%d", prefix, r.tmp))
}

func simCall(fn string, args ...ast.Expr) *ast.CallExpr {
	return &ast.CallExpr{Fun: &ast.SelectorExpr{X: ast.NewIdent("simrt"), Sel: ast.NewIdent(fn)}, Args: args}
}

func (r *rw) goStmt(g *ast.GoStmt) ast.Stmt {
	r.needSim = true
	r.st.GoStmts++
	call := g.Call
	callee := "func"
	switch f := call.Fun.(type) {
	case *ast.SelectorExpr:
		callee = f.Sel.Name
	case *ast.Ident:
		callee = f.Name
	}
	site := &ast.BasicLit{Kind: token.STRING, Value: strconv.Quote(callee + "@" + r.pos(g.Pos()))}
	if lit, ok := call.Fun.(*ast.FuncLit); ok && len(call.Args) == 0 && lit.Type.Results == nil {
		return &ast.ExprStmt{X: simCall("Go", site, lit)}
	}
	// { f, a0, a1 := fun, arg0, arg1; simrt.Go(site, func() { f(a0, a1) }) }
	var lhs, rhs []ast.Expr
	fn := r.fresh("f")
	lhs = append(lhs, fn)
	rhs = append(rhs, call.Fun)
	var args []ast.Expr
	for _, a := range call.Args {
		id := r.fresh("a")
		lhs = append(lhs, id)
		rhs = append(rhs, a)
		args = append(args, id)
	}
	inner := &ast.CallExpr{Fun: fn, Args: args, Ellipsis: call.Ellipsis}
	if call.Ellipsis != token.NoPos {
		inner.Ellipsis = 1
	}
	body := &ast.FuncLit{
		Type: &ast.FuncType{Params: &ast.FieldList{}},
		Body: &ast.BlockStmt{List: []ast.Stmt{&ast.ExprStmt{X: inner}}},
	}
	return &ast.BlockStmt{List: []ast.Stmt{
		&ast.AssignStmt{Lhs: lhs, Tok: token.DEFINE, Rhs: rhs},
		&ast.ExprStmt{X: simCall("Go", site, body)},
	}}
}

func (r *rw) mapRange(n *ast.RangeStmt) ast.Stmt {
	r.needSim = true
	r.st.MapRanges++
	m := r.fresh("m")
	k := r.fresh("k")
	var pre []ast.Stmt
	if isNamed(n.Key) {
		pre = append(pre, &ast.AssignStmt{Lhs: []ast.Expr{n.Key}, Tok: n.Tok, Rhs: []ast.Expr{k}})
	}
	ok := r.fresh("ok")
	val := ast.Expr(ast.NewIdent("_"))
	tok := token.ASSIGN
	if isNamed(n.Value) {
		val = n.Value
		tok = n.Tok
	}
	if tok == token.DEFINE {
		pre = append(pre, &ast.AssignStmt{Lhs: []ast.Expr{val, ok}, Tok: token.DEFINE, Rhs: []ast.Expr{&ast.IndexExpr{X: m, Index: k}}})
	} else {
		pre = append(pre,
			&ast.DeclStmt{Decl: &ast.GenDecl{Tok: token.VAR, Specs: []ast.Spec{&ast.ValueSpec{Names: []*ast.Ident{ok}, Type: ast.NewIdent("bool")}}}},
			&ast.AssignStmt{Lhs: []ast.Expr{val, ok}, Tok: token.ASSIGN, Rhs: []ast.Expr{&ast.IndexExpr{X: m, Index: k}}})
	}
	pre = append(pre, &ast.IfStmt{Cond: &ast.UnaryExpr{Op: token.NOT, X: ok}, Body: &ast.BlockStmt{List: []ast.Stmt{&ast.BranchStmt{Tok: token.CONTINUE}}}})
	body := &ast.BlockStmt{List: append(pre, n.Body.List...)}
	loop := &ast.RangeStmt{Key: ast.NewIdent("_"), Value: k, Tok: token.DEFINE, X: simCall("Keys", m), Body: body}
	return &ast.BlockStmt{List: []ast.Stmt{
		&ast.AssignStmt{Lhs: []ast.Expr{m}, Tok: token.DEFINE, Rhs: []ast.Expr{n.X}},
		loop,
	}}
}
