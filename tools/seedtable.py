#!/usr/bin/env python3
"""Regenerates the table of seeded changes in DESIGN.md (between the markers
<!-- SEEDED_TABLE_BEGIN --> and <!-- SEEDED_TABLE_END -->) from
/verif/seeded/*/meta.json and the first heading of each notes.md."""
import json, glob, os, re
root = os.path.dirname(os.path.dirname(os.path.abspath(__file__)))
rows = []
try:
    strengthened = json.load(open(os.path.join(root, "seeded", "strengthened.json")))
except OSError:
    strengthened = {}
for d in sorted(glob.glob(os.path.join(root, "seeded", "*"))):
    mp = os.path.join(d, "meta.json")
    if not os.path.exists(mp):
        continue
    m = json.load(open(mp))
    title = m.get("summary", "")
    if not title:
        try:
            first = open(os.path.join(d, "notes.md")).readline().strip()
            title = re.sub(r"^#\s*((a|b|c)\d\s*/\s*)?m\d\s*[-–]\s*", "", first)
        except OSError:
            title = ""
    caught = []
    for k, v in sorted(m.get("checks_run", {}).items()):
        if v.get("exit") == 1:
            sigs = [s.replace("|", "/") for s in v.get("signatures", [])[:2]]
            caught.append(f"{k} ({v.get('seconds', '?')} s): " + ", ".join(f"`{s}`" for s in sigs))
    missed = [k for k, v in sorted(m.get("checks_run", {}).items()) if v.get("exit") == 0]
    note = strengthened.get(os.path.basename(d), "no")
    rows.append((os.path.basename(d), m.get("property", ""), title.replace("|", "/"), "; ".join(caught) or "**not caught**", ", ".join(missed), note))
out = ["| seeded change | property | what it does | caught by (first signatures) | ran clean | check strengthened first? |", "|---|---|---|---|---|---|"]
for r in rows:
    out.append("| " + " | ".join(r) + " |")
table = "\n".join(out)
p = os.path.join(root, "DESIGN.md")
s = open(p).read()
b, e = "<!-- SEEDED_TABLE_BEGIN -->", "<!-- SEEDED_TABLE_END -->"
if b in s:
    s = s[:s.index(b) + len(b)] + "\n" + table + "\n" + s[s.index(e):]
else:
    s = s.replace("SEEDED_TABLE", b + "\n" + table + "\n" + e)
open(p, "w").write(s)
print(len(rows), "rows")
