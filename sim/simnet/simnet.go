// Package simnet is the simulated transport: TCP-like, ordered, lossless
// byte links with finite capacity, PRNG-chosen read segmentation, virtual-time
// deadlines, FIN / RST / half-open behaviour, accept errors, and wire taps that
// stamp every byte with the simulator's global event sequence number.
package simnet

import (
	"errors"
	"fmt"
	"io"
	"net"
	"syscall"
	"time"

	"verif/sim/instr/touch"
	"verif/sim/simrt"
)

const valuesKey = "simnet"

// Net is the per-run network.
type Net struct {
	s         *simrt.Sim
	listeners map[string]*Listener
	Conns     []*Conn
	// DefaultCap is the capacity of new links in bytes.
	DefaultCap int
	// SegmentNum/SegmentDen: probability that a Read returns a random strict
	// prefix of what is available.
	SegmentNum, SegmentDen int
	// OnDial, if set, is called for every new connection pair.
	OnDial func(client, server *Conn)
	nconn  int
}

// Get returns the network of the running simulation.
func Get(s *simrt.Sim) *Net {
	if n, ok := s.Values[valuesKey].(*Net); ok {
		return n
	}
	n := &Net{s: s, listeners: map[string]*Listener{}, DefaultCap: 65536, SegmentNum: 1, SegmentDen: 4}
	s.Values[valuesKey] = n
	return n
}

type addr string

func (a addr) Network() string { return "tcp" }
func (a addr) String() string  { return string(a) }

// Link is one direction of a connection.
type Link struct {
	buf     []byte
	cap     int
	wclosed bool // writer closed: EOF after drain
	rclosed bool // reading endpoint closed
	rstSeen bool // a write after rclosed already "succeeded"
	reset   bool // RST from the writer side: reader fails at once
	readers []*simrt.Task
	writers []*simrt.Task
	// OnWrite sees every chunk the moment it is accepted by the link.
	OnWrite func(b []byte)
	Total   int64
}

func (l *Link) wake(s *simrt.Sim, ts *[]*simrt.Task) {
	for _, t := range *ts {
		s.Wake(t)
	}
	*ts = (*ts)[:0]
}

// Conn is one endpoint; it implements net.Conn.
type Conn struct {
	n      *Net
	Name   string
	ID     int
	Server bool
	rd, wr *Link
	peer   *Conn
	closed bool
	rdl    time.Duration
	wdl    time.Duration
	local  addr
	remote addr
	// ClosedSeq / ClosedVT: event sequence number and virtual time at which
	// this endpoint was closed (0 / -1 while open).
	ClosedSeq int64
	ClosedVT  time.Duration
	// acceptedVT: virtual time at which Accept handed the server endpoint to
	// the listening program (-1 while it waits in the listener's queue).
	acceptedVT time.Duration
	// ReadErr, if non-nil, is returned by the next Read (one shot).
	ReadErr error
	// Stats
	ReadCalls, WriteCalls int
}

type timeoutError struct{ op string }

func (e *timeoutError) Error() string   { return e.op + ": i/o timeout" }
func (e *timeoutError) Timeout() bool   { return true }
func (e *timeoutError) Temporary() bool { return true }

type tempError struct{}

func (tempError) Error() string   { return "accept: too many open files (injected)" }
func (tempError) Timeout() bool   { return false }
func (tempError) Temporary() bool { return true }

func (c *Conn) opErr(op string, err error) error {
	return &net.OpError{Op: op, Net: "tcp", Source: c.local, Addr: c.remote, Err: err}
}

// Read implements net.Conn.
func (c *Conn) Read(p []byte) (int, error) {
	s := c.n.s
	s.Yield(simrt.YConnRead)
	c.ReadCalls++
	l := c.rd
	for {
		if c.closed {
			return 0, c.opErr("read", net.ErrClosed)
		}
		if l.reset {
			return 0, c.opErr("read", syscall.ECONNRESET)
		}
		if c.ReadErr != nil {
			err := c.ReadErr
			c.ReadErr = nil
			s.Fault("read_error")
			return 0, c.opErr("read", err)
		}
		if len(l.buf) > 0 && len(p) > 0 {
			n := len(l.buf)
			if n > len(p) {
				n = len(p)
			}
			if n > 1 && s.Chance(c.n.SegmentNum, c.n.SegmentDen) {
				n = 1 + s.Choose(n-1)
				s.Fault("segmented_read")
			}
			touch.Write(p[:n], l.buf[:n])
			l.buf = l.buf[n:]
			if len(l.buf) == 0 {
				l.buf = nil
			}
			l.wake(s, &l.writers)
			return n, nil
		}
		if len(p) == 0 {
			return 0, nil
		}
		if l.wclosed {
			return 0, io.EOF
		}
		if c.rdl >= 0 && s.Now() >= c.rdl {
			s.Fault("read_deadline")
			return 0, c.opErr("read", &timeoutError{"read"})
		}
		l.readers = append(l.readers, s.Current())
		s.BlockUntil(simrt.WConnRead, c, c.Name, c.rdl)
	}
}

// Write implements net.Conn.
func (c *Conn) Write(p []byte) (int, error) {
	s := c.n.s
	s.Yield(simrt.YConnWrite)
	c.WriteCalls++
	l := c.wr
	n := 0
	for {
		if c.closed {
			return n, c.opErr("write", net.ErrClosed)
		}
		if l.reset {
			return n, c.opErr("write", syscall.ECONNRESET)
		}
		if l.wclosed {
			return n, c.opErr("write", syscall.EPIPE) // after CloseWrite
		}
		if l.rclosed {
			// TCP: the first write after the peer went away is accepted by
			// the kernel and provokes the RST; later ones fail.
			if l.rstSeen {
				return n, c.opErr("write", syscall.EPIPE)
			}
			l.rstSeen = true
			touch.Read(p[n:])
			return len(p), nil
		}
		if n == len(p) {
			return n, nil
		}
		space := l.cap - len(l.buf)
		if space > 0 {
			k := len(p) - n
			if k > space {
				k = space
			}
			chunk := make([]byte, k)
			touch.Write(chunk, p[n:n+k])
			l.buf = append(l.buf, chunk...)
			l.Total += int64(k)
			if l.OnWrite != nil {
				l.OnWrite(chunk)
			}
			n += k
			l.wake(s, &l.readers)
			continue
		}
		if c.wdl >= 0 && s.Now() >= c.wdl {
			return n, c.opErr("write", &timeoutError{"write"})
		}
		s.Probe("link_full")
		l.writers = append(l.writers, s.Current())
		s.BlockUntil(simrt.WConnWrite, c, c.Name, c.wdl)
	}
}

// Close implements net.Conn (orderly close: FIN).
func (c *Conn) Close() error {
	s := c.n.s
	s.Yield(simrt.YConnClose)
	if c.closed {
		return c.opErr("close", net.ErrClosed)
	}
	c.closeInternal(false)
	return nil
}

// InjectReadErr makes the next Read of this endpoint fail with err (a failing
// system call on an otherwise healthy connection) and wakes a blocked reader.
func (c *Conn) InjectReadErr(err error) {
	c.ReadErr = err
	c.rd.wake(c.n.s, &c.rd.readers)
}

// CloseWrite shuts down the sending direction only (TCP half-close): the
// peer reads what was written and then EOF, while this endpoint can go on
// reading.
func (c *Conn) CloseWrite() error {
	s := c.n.s
	s.Yield(simrt.YConnClose)
	if c.closed {
		return c.opErr("close", net.ErrClosed)
	}
	if !c.wr.wclosed {
		c.wr.wclosed = true
		c.wr.wake(s, &c.wr.readers)
		s.Event("conn-shutwr", int64(c.ID), 0)
		s.Fault("half_close")
	}
	return nil
}

func (c *Conn) closeInternal(rst bool) {
	s := c.n.s
	c.closed = true
	c.ClosedSeq = s.Stamp()
	c.ClosedVT = s.Now()
	c.wr.wclosed = true
	if rst {
		c.wr.reset = true
		c.wr.buf = nil
		c.rd.reset = true
	}
	c.rd.rclosed = true
	c.rd.buf = nil
	c.wr.wake(s, &c.wr.readers)
	c.wr.wake(s, &c.wr.writers)
	c.rd.wake(s, &c.rd.readers)
	c.rd.wake(s, &c.rd.writers)
	s.Event("conn-close", int64(c.ID), b2i(rst))
}

func b2i(b bool) int64 {
	if b {
		return 1
	}
	return 0
}

// Reset closes the endpoint abortively (RST): the peer's pending and future
// reads and writes fail at once and data in flight is discarded.
func (c *Conn) Reset() {
	s := c.n.s
	s.Yield(simrt.YConnClose)
	if c.closed {
		return
	}
	s.Fault("reset")
	c.closeInternal(true)
}

func (c *Conn) LocalAddr() net.Addr  { return c.local }
func (c *Conn) RemoteAddr() net.Addr { return c.remote }

func (c *Conn) SetDeadline(t time.Time) error {
	if err := c.SetReadDeadline(t); err != nil {
		return err
	}
	return c.SetWriteDeadline(t)
}

func virt(t time.Time) time.Duration {
	if t.IsZero() {
		return -1
	}
	return t.Sub(Epoch)
}

// Epoch must equal shim/time.Epoch.
var Epoch = time.Date(2024, 1, 1, 0, 0, 0, 0, time.UTC)

func (c *Conn) SetReadDeadline(t time.Time) error {
	s := c.n.s
	s.Yield(simrt.YConnDeadline)
	if c.closed {
		return c.opErr("set", net.ErrClosed)
	}
	c.rdl = virt(t)
	c.rd.wake(s, &c.rd.readers)
	return nil
}

func (c *Conn) SetWriteDeadline(t time.Time) error {
	s := c.n.s
	s.Yield(simrt.YConnDeadline)
	if c.closed {
		return c.opErr("set", net.ErrClosed)
	}
	c.wdl = virt(t)
	c.wr.wake(s, &c.wr.writers)
	return nil
}

// ---- harness-side helpers (no scheduling points)

// Closed reports whether this endpoint was closed.
func (c *Conn) Closed() bool { return c.closed }

// PeerClosed reports whether the other endpoint was closed (FIN or RST).
func (c *Conn) PeerClosed() bool { return c.peer.closed }

// Readable returns the number of bytes waiting to be read at this endpoint.
func (c *Conn) Readable() int { return len(c.rd.buf) }

// Unread returns the number of bytes this endpoint wrote that the peer has
// not read yet.
func (c *Conn) Unread() int { return len(c.wr.buf) }

// Peer returns the other endpoint.
func (c *Conn) Peer() *Conn { return c.peer }

// SetCaps sets the capacities of the outgoing and incoming link.
func (c *Conn) SetCaps(out, in int) {
	if out > 0 {
		c.wr.cap = out
	}
	if in > 0 {
		c.rd.cap = in
	}
}

// TapOut installs a tap on the bytes this endpoint writes.
func (c *Conn) TapOut(f func(b []byte)) { c.wr.OnWrite = f }

// TapIn installs a tap on the bytes the peer writes.
func (c *Conn) TapIn(f func(b []byte)) { c.rd.OnWrite = f }

// Written returns the total number of bytes this endpoint has put on the wire.
func (c *Conn) Written() int64 { return c.wr.Total }

// Listener implements net.Listener.
type Listener struct {
	n       *Net
	addr    addr
	queue   []*Conn
	closed  bool
	waiters []*simrt.Task
	// AcceptErrs is the number of temporary errors Accept returns before
	// delivering connections again.
	AcceptErrs int
	// ErrNum/ErrDen: probability (fault stream) that an Accept with a
	// connection waiting fails with a temporary error; at most 6 in a row.
	ErrNum, ErrDen int
	errStreak      int
}

// Listen registers a listener.
func Listen(s *simrt.Sim, network, address string) (*Listener, error) {
	n := Get(s)
	if l, ok := n.listeners[address]; ok && !l.closed {
		return nil, &net.OpError{Op: "listen", Net: network, Err: syscall.EADDRINUSE}
	}
	l := &Listener{n: n, addr: addr(address)}
	n.listeners[address] = l
	return l, nil
}

func (l *Listener) Accept() (net.Conn, error) {
	s := l.n.s
	s.Yield(simrt.YAccept)
	for {
		if l.closed {
			return nil, &net.OpError{Op: "accept", Net: "tcp", Addr: l.addr, Err: net.ErrClosed}
		}
		if l.AcceptErrs > 0 && len(l.queue) > 0 {
			l.AcceptErrs--
			s.Fault("accept_error")
			return nil, &net.OpError{Op: "accept", Net: "tcp", Addr: l.addr, Err: tempError{}}
		}
		if l.ErrDen > 0 && len(l.queue) > 0 && l.errStreak < 6 && s.Chance(l.ErrNum, l.ErrDen) {
			l.errStreak++
			s.Fault("accept_error")
			return nil, &net.OpError{Op: "accept", Net: "tcp", Addr: l.addr, Err: tempError{}}
		}
		if len(l.queue) > 0 {
			c := l.queue[0]
			l.queue = l.queue[1:]
			l.errStreak = 0
			c.acceptedVT = s.Now()
			return c, nil
		}
		l.waiters = append(l.waiters, s.Current())
		s.Block(simrt.WAccept, l, string(l.addr))
	}
}

func (l *Listener) Close() error {
	s := l.n.s
	s.Yield(simrt.YConnClose)
	if l.closed {
		return &net.OpError{Op: "close", Net: "tcp", Addr: l.addr, Err: net.ErrClosed}
	}
	l.closed = true
	for _, c := range l.queue {
		c.closeInternal(true)
	}
	l.queue = nil
	for _, t := range l.waiters {
		s.Wake(t)
	}
	l.waiters = nil
	return nil
}

func (l *Listener) Addr() net.Addr { return l.addr }

// Backlog returns the number of connections waiting to be accepted.
func (l *Listener) Backlog() int { return len(l.queue) }

var errRefused = errors.New("connection refused")

// Dial connects to a registered listener and returns the client endpoint.
func Dial(s *simrt.Sim, network, address string) (*Conn, error) {
	n := Get(s)
	s.Yield(simrt.YDial)
	l, ok := n.listeners[address]
	if !ok || l.closed {
		return nil, &net.OpError{Op: "dial", Net: network, Addr: addr(address), Err: errRefused}
	}
	n.nconn++
	id := n.nconn
	up := &Link{cap: n.DefaultCap}
	down := &Link{cap: n.DefaultCap}
	ca := addr(fmt.Sprintf("10.0.0.%d:%d", id%250+1, 40000+id))
	cl := &Conn{n: n, ID: id, Name: fmt.Sprintf("c%d", id), rd: down, wr: up, rdl: -1, wdl: -1, local: ca, remote: l.addr}
	sv := &Conn{n: n, ID: id, Name: fmt.Sprintf("s%d", id), acceptedVT: -1, Server: true, rd: up, wr: down, rdl: -1, wdl: -1, local: l.addr, remote: ca}
	cl.peer, sv.peer = sv, cl
	n.Conns = append(n.Conns, cl)
	if n.OnDial != nil {
		n.OnDial(cl, sv)
	}
	l.queue = append(l.queue, sv)
	for _, t := range l.waiters {
		s.Wake(t)
	}
	l.waiters = l.waiters[:0]
	s.Event("dial", int64(id), 0)
	return cl, nil
}

// AcceptVT returns the virtual time at which the listening program accepted
// this connection (either endpoint may be asked), or -1 if it has not yet.
func (c *Conn) AcceptVT() time.Duration {
	if c.Server {
		return c.acceptedVT
	}
	if c.peer != nil {
		return c.peer.acceptedVT
	}
	return -1
}

// InjectAcceptErrs makes the listener at address return n temporary errors.
func (n *Net) InjectAcceptErrs(address string, k int) {
	if l, ok := n.listeners[address]; ok {
		l.AcceptErrs = k
	}
}

// InjectAcceptErrRate makes every Accept of the listener at address that has a
// connection waiting fail with a temporary error with probability num/den
// (decided by the run's fault stream; at most 6 failures in a row).
func (n *Net) InjectAcceptErrRate(address string, num, den int) {
	if l, ok := n.listeners[address]; ok {
		l.ErrNum, l.ErrDen = num, den
	}
}
