// Package touch is compiled WITH race instrumentation (unlike the rest of the
// simulator): the simulated transport goes through it whenever it reads or
// writes memory that belongs to the library (the buffers handed to
// net.Conn.Read/Write), so that ThreadSanitizer attributes those accesses to
// the calling task exactly like the race annotations in the real syscall
// layer do.
package touch

// Write copies src into dst (dst is library memory).
//
//go:noinline
func Write(dst, src []byte) {
	copy(dst, src) // instrumented: one write-range event on dst
}

// Read reads every byte of p (library memory).
//
//go:noinline
func Read(p []byte) {
	var scratch [1024]byte // on the caller's stack: not shared between tasks
	for len(p) > 0 {
		n := copy(scratch[:], p) // instrumented: one read-range event on p
		p = p[n:]
	}
}
