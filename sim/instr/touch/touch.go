// Package touch is the only harness package compiled WITH race
// instrumentation: the simulated transport goes through it whenever it reads
// or writes memory that belongs to the library (the buffers handed to
// net.Conn.Read/Write), so that ThreadSanitizer attributes those accesses to
// the calling task exactly like the race annotations in the real syscall
// layer do.
package touch

// Write copies src into dst (dst is library memory).
//
//go:noinline
func Write(dst, src []byte) {
	for i := range src {
		dst[i] = src[i]
	}
}

var sink byte

// Read reads every byte of p (library memory).
//
//go:noinline
func Read(p []byte) {
	var x byte
	for _, b := range p {
		x ^= b
	}
	if x == 0x5a && len(p) == 1<<40 {
		sink = x
	}
}
