// Package refmqtt is an independent, strict MQTT 3.1.1 codec written from the
// OASIS specification text.  It shares no code with the library's message
// package; all simulated peers speak through it and every byte the library
// emits is parsed by it.
package refmqtt

import (
	"errors"
	"fmt"
	"strings"
	"unicode/utf8"
)

// Packet types (MQTT 3.1.1 table 2.1).
const (
	CONNECT     = 1
	CONNACK     = 2
	PUBLISH     = 3
	PUBACK      = 4
	PUBREC      = 5
	PUBREL      = 6
	PUBCOMP     = 7
	SUBSCRIBE   = 8
	SUBACK      = 9
	UNSUBSCRIBE = 10
	UNSUBACK    = 11
	PINGREQ     = 12
	PINGRESP    = 13
	DISCONNECT  = 14
)

var typeNames = [...]string{"RESERVED0", "CONNECT", "CONNACK", "PUBLISH", "PUBACK", "PUBREC", "PUBREL", "PUBCOMP", "SUBSCRIBE", "SUBACK", "UNSUBSCRIBE", "UNSUBACK", "PINGREQ", "PINGRESP", "DISCONNECT", "RESERVED15"}

// TypeName returns the name of a packet type.
func TypeName(t byte) string { return typeNames[t&15] }

// Packet is a decoded (or to-be-encoded) control packet.
type Packet struct {
	Type  byte
	Flags byte // raw low nibble of byte 1

	// PUBLISH
	Dup     bool
	QoS     byte
	Retain  bool
	Topic   string
	Payload []byte

	// packet identifier (PUBLISH qos>0, acks, SUBSCRIBE, ...)
	ID uint16

	// CONNECT
	ProtoName    string
	ProtoLevel   byte
	ConnFlags    byte
	KeepAlive    uint16
	ClientID     string
	CleanSession bool
	WillFlag     bool
	WillQoS      byte
	WillRetain   bool
	WillTopic    string
	WillMessage  []byte
	HasUser      bool
	HasPass      bool
	User         string
	Pass         []byte

	// CONNACK
	SessionPresent bool
	Code           byte

	// SUBSCRIBE / UNSUBSCRIBE / SUBACK
	Filters []string
	QoSs    []byte // requested QoS (SUBSCRIBE) or return codes (SUBACK)

	// Raw is the exact encoding when the packet came from Parse.
	Raw []byte
}

func (p *Packet) String() string {
	switch p.Type {
	case PUBLISH:
		return fmt.Sprintf("PUBLISH{id=%d q=%d dup=%v ret=%v topic=%q len=%d}", p.ID, p.QoS, p.Dup, p.Retain, p.Topic, len(p.Payload))
	case CONNECT:
		return fmt.Sprintf("CONNECT{id=%q clean=%v ka=%d will=%v}", p.ClientID, p.CleanSession, p.KeepAlive, p.WillFlag)
	case CONNACK:
		return fmt.Sprintf("CONNACK{sp=%v code=%d}", p.SessionPresent, p.Code)
	case SUBSCRIBE:
		return fmt.Sprintf("SUBSCRIBE{id=%d %q %v}", p.ID, p.Filters, p.QoSs)
	case SUBACK:
		return fmt.Sprintf("SUBACK{id=%d %v}", p.ID, p.QoSs)
	case UNSUBSCRIBE:
		return fmt.Sprintf("UNSUBSCRIBE{id=%d %q}", p.ID, p.Filters)
	case PINGREQ, PINGRESP, DISCONNECT:
		return TypeName(p.Type)
	}
	return fmt.Sprintf("%s{id=%d}", TypeName(p.Type), p.ID)
}

// ---------------------------------------------------------------- encoding

func putLen(b []byte, n int) []byte {
	for {
		d := byte(n % 128)
		n /= 128
		if n > 0 {
			d |= 0x80
		}
		b = append(b, d)
		if n == 0 {
			return b
		}
	}
}

func putStr(b []byte, s string) []byte {
	b = append(b, byte(len(s)>>8), byte(len(s)))
	return append(b, s...)
}

func putBytes(b []byte, s []byte) []byte {
	b = append(b, byte(len(s)>>8), byte(len(s)))
	return append(b, s...)
}

// Encode produces the wire form.  It encodes what it is given (it does not
// validate), so that peers can also produce deliberately odd packets.
func Encode(p *Packet) []byte {
	var body []byte
	flags := p.Flags
	switch p.Type {
	case CONNECT:
		name := p.ProtoName
		if name == "" {
			name = "MQTT"
		}
		level := p.ProtoLevel
		if level == 0 {
			level = 4
		}
		body = putStr(body, name)
		body = append(body, level)
		cf := p.ConnFlags
		if cf == 0 {
			if p.CleanSession {
				cf |= 2
			}
			if p.WillFlag {
				cf |= 4 | p.WillQoS<<3
				if p.WillRetain {
					cf |= 0x20
				}
			}
			if p.HasPass {
				cf |= 0x40
			}
			if p.HasUser {
				cf |= 0x80
			}
		}
		body = append(body, cf, byte(p.KeepAlive>>8), byte(p.KeepAlive))
		body = putStr(body, p.ClientID)
		if cf&4 != 0 {
			body = putStr(body, p.WillTopic)
			body = putBytes(body, p.WillMessage)
		}
		if cf&0x80 != 0 {
			body = putStr(body, p.User)
		}
		if cf&0x40 != 0 {
			body = putBytes(body, p.Pass)
		}
	case CONNACK:
		var f byte
		if p.SessionPresent {
			f = 1
		}
		body = append(body, f, p.Code)
	case PUBLISH:
		flags = p.QoS << 1
		if p.Dup {
			flags |= 8
		}
		if p.Retain {
			flags |= 1
		}
		body = putStr(body, p.Topic)
		if p.QoS > 0 {
			body = append(body, byte(p.ID>>8), byte(p.ID))
		}
		body = append(body, p.Payload...)
	case PUBACK, PUBREC, PUBCOMP, UNSUBACK:
		body = append(body, byte(p.ID>>8), byte(p.ID))
	case PUBREL:
		flags = 2
		body = append(body, byte(p.ID>>8), byte(p.ID))
	case SUBSCRIBE:
		flags = 2
		body = append(body, byte(p.ID>>8), byte(p.ID))
		for i, f := range p.Filters {
			body = putStr(body, f)
			body = append(body, p.QoSs[i])
		}
	case SUBACK:
		body = append(body, byte(p.ID>>8), byte(p.ID))
		body = append(body, p.QoSs...)
	case UNSUBSCRIBE:
		flags = 2
		body = append(body, byte(p.ID>>8), byte(p.ID))
		for _, f := range p.Filters {
			body = putStr(body, f)
		}
	case PINGREQ, PINGRESP, DISCONNECT:
	}
	out := []byte{p.Type<<4 | flags&15}
	out = putLen(out, len(body))
	return append(out, body...)
}

// ---------------------------------------------------------------- parsing

// ErrMalformed wraps every strict-parse failure.
type ErrMalformed struct{ Why string }

func (e *ErrMalformed) Error() string { return "malformed packet: " + e.Why }

func bad(format string, a ...interface{}) error {
	return &ErrMalformed{fmt.Sprintf(format, a...)}
}

var errShort = errors.New("short")

type reader struct {
	b []byte
	i int
}

func (r *reader) left() int { return len(r.b) - r.i }
func (r *reader) u8() (byte, error) {
	if r.left() < 1 {
		return 0, errShort
	}
	v := r.b[r.i]
	r.i++
	return v, nil
}
func (r *reader) u16() (uint16, error) {
	if r.left() < 2 {
		return 0, errShort
	}
	v := uint16(r.b[r.i])<<8 | uint16(r.b[r.i+1])
	r.i += 2
	return v, nil
}
func (r *reader) bytes() ([]byte, error) {
	n, err := r.u16()
	if err != nil {
		return nil, err
	}
	if r.left() < int(n) {
		return nil, errShort
	}
	v := r.b[r.i : r.i+int(n)]
	r.i += int(n)
	return v, nil
}
func (r *reader) str() (string, error) {
	b, err := r.bytes()
	if err != nil {
		return "", err
	}
	if !utf8.Valid(b) {
		return "", bad("string is not valid UTF-8")
	}
	for _, c := range b {
		if c == 0 {
			return "", bad("string contains U+0000")
		}
	}
	return string(b), nil
}

// HeaderLen decodes the fixed header: returns type/flags byte, remaining
// length and the header size; n == 0 means more bytes are needed.
func HeaderLen(b []byte) (remlen, n int, err error) {
	if len(b) < 2 {
		return 0, 0, nil
	}
	mult := 1
	for i := 1; ; i++ {
		if i > 4 {
			return 0, 0, bad("remaining length longer than 4 bytes")
		}
		if i >= len(b) {
			return 0, 0, nil
		}
		remlen += int(b[i]&0x7f) * mult
		mult *= 128
		if b[i]&0x80 == 0 {
			return remlen, i + 1, nil
		}
	}
}

// Parse strictly decodes one packet from the front of b.  n == 0 with a nil
// error means the packet is not complete yet.
func Parse(b []byte) (p *Packet, n int, err error) { return parse(b, false) }

// ParseLenient is Parse except that it accepts any requested-QoS byte in a
// SUBSCRIBE (used for the streams the harness itself writes, which include
// deliberately out-of-range values).
func ParseLenient(b []byte) (p *Packet, n int, err error) { return parse(b, true) }

func parse(b []byte, lenient bool) (p *Packet, n int, err error) {
	remlen, hl, err := HeaderLen(b)
	if err != nil {
		return nil, 0, err
	}
	if hl == 0 || len(b) < hl+remlen {
		return nil, 0, nil
	}
	total := hl + remlen
	raw := make([]byte, total)
	copy(raw, b[:total])
	p = &Packet{Type: raw[0] >> 4, Flags: raw[0] & 15, Raw: raw}
	r := &reader{b: raw[hl:]}
	fail := func(e error) (*Packet, int, error) {
		if e == errShort {
			e = bad("%s: field runs past the end of the packet (remaining length %d)", TypeName(p.Type), remlen)
		}
		return nil, total, e
	}
	wantFlags := func(f byte) error {
		if p.Flags != f {
			return bad("%s with reserved flags %#x (must be %#x)", TypeName(p.Type), p.Flags, f)
		}
		return nil
	}
	idOnly := func() error {
		if remlen != 2 {
			return bad("%s with remaining length %d (must be 2)", TypeName(p.Type), remlen)
		}
		p.ID, _ = r.u16()
		if p.ID == 0 {
			return bad("%s with packet identifier 0", TypeName(p.Type))
		}
		return nil
	}
	switch p.Type {
	case CONNECT:
		if e := wantFlags(0); e != nil {
			return fail(e)
		}
		var e error
		if p.ProtoName, e = r.str(); e != nil {
			return fail(e)
		}
		if p.ProtoLevel, e = r.u8(); e != nil {
			return fail(e)
		}
		if p.ConnFlags, e = r.u8(); e != nil {
			return fail(e)
		}
		cf := p.ConnFlags
		if cf&1 != 0 {
			return fail(bad("CONNECT reserved flag set"))
		}
		p.CleanSession = cf&2 != 0
		p.WillFlag = cf&4 != 0
		p.WillQoS = cf >> 3 & 3
		p.WillRetain = cf&0x20 != 0
		p.HasPass = cf&0x40 != 0
		p.HasUser = cf&0x80 != 0
		if !p.WillFlag && (p.WillQoS != 0 || p.WillRetain) {
			return fail(bad("CONNECT will QoS/retain set without will flag"))
		}
		if p.WillQoS == 3 {
			return fail(bad("CONNECT will QoS 3"))
		}
		if p.HasPass && !p.HasUser {
			return fail(bad("CONNECT password flag without user name flag"))
		}
		if p.KeepAlive, e = r.u16(); e != nil {
			return fail(e)
		}
		if p.ClientID, e = r.str(); e != nil {
			return fail(e)
		}
		if p.WillFlag {
			if p.WillTopic, e = r.str(); e != nil {
				return fail(e)
			}
			if p.WillMessage, e = r.bytes(); e != nil {
				return fail(e)
			}
			if p.WillTopic == "" || strings.ContainsAny(p.WillTopic, "+#") {
				return fail(bad("CONNECT will topic %q is not a topic name", p.WillTopic))
			}
		}
		if p.HasUser {
			if p.User, e = r.str(); e != nil {
				return fail(e)
			}
		}
		if p.HasPass {
			if p.Pass, e = r.bytes(); e != nil {
				return fail(e)
			}
		}
		if r.left() != 0 {
			return fail(bad("CONNECT with %d trailing bytes", r.left()))
		}
	case CONNACK:
		if e := wantFlags(0); e != nil {
			return fail(e)
		}
		if remlen != 2 {
			return fail(bad("CONNACK with remaining length %d", remlen))
		}
		f, _ := r.u8()
		if f&0xfe != 0 {
			return fail(bad("CONNACK acknowledge flags %#x", f))
		}
		p.SessionPresent = f&1 != 0
		p.Code, _ = r.u8()
		if p.Code > 5 {
			return fail(bad("CONNACK return code %d", p.Code))
		}
		if p.Code != 0 && p.SessionPresent {
			return fail(bad("CONNACK session present with non-zero return code"))
		}
	case PUBLISH:
		p.Dup = p.Flags&8 != 0
		p.QoS = p.Flags >> 1 & 3
		p.Retain = p.Flags&1 != 0
		if p.QoS == 3 {
			return fail(bad("PUBLISH with QoS 3"))
		}
		if p.QoS == 0 && p.Dup {
			return fail(bad("PUBLISH QoS 0 with DUP set"))
		}
		var e error
		if p.Topic, e = r.str(); e != nil {
			return fail(e)
		}
		if len(p.Topic) == 0 {
			return fail(bad("PUBLISH with empty topic name"))
		}
		for i := 0; i < len(p.Topic); i++ {
			if p.Topic[i] == '+' || p.Topic[i] == '#' {
				return fail(bad("PUBLISH topic name %q contains a wildcard", p.Topic))
			}
		}
		if p.QoS > 0 {
			if p.ID, e = r.u16(); e != nil {
				return fail(e)
			}
			if p.ID == 0 {
				return fail(bad("PUBLISH QoS %d with packet identifier 0", p.QoS))
			}
		}
		p.Payload = raw[hl+r.i:]
	case PUBACK, PUBREC, PUBCOMP, UNSUBACK:
		if e := wantFlags(0); e != nil {
			return fail(e)
		}
		if e := idOnly(); e != nil {
			return fail(e)
		}
	case PUBREL:
		if e := wantFlags(2); e != nil {
			return fail(e)
		}
		if e := idOnly(); e != nil {
			return fail(e)
		}
	case SUBSCRIBE:
		if e := wantFlags(2); e != nil {
			return fail(e)
		}
		var e error
		if p.ID, e = r.u16(); e != nil {
			return fail(e)
		}
		if p.ID == 0 {
			return fail(bad("SUBSCRIBE with packet identifier 0"))
		}
		for r.left() > 0 {
			f, e := r.str()
			if e != nil {
				return fail(e)
			}
			q, e := r.u8()
			if e != nil {
				return fail(e)
			}
			if q > 2 && !lenient {
				return fail(bad("SUBSCRIBE requested QoS byte %#x", q))
			}
			p.Filters = append(p.Filters, f)
			p.QoSs = append(p.QoSs, q)
		}
		if len(p.Filters) == 0 {
			return fail(bad("SUBSCRIBE without topic filter"))
		}
	case SUBACK:
		if e := wantFlags(0); e != nil {
			return fail(e)
		}
		var e error
		if p.ID, e = r.u16(); e != nil {
			return fail(e)
		}
		if p.ID == 0 {
			return fail(bad("SUBACK with packet identifier 0"))
		}
		for r.left() > 0 {
			c, _ := r.u8()
			if c > 2 && c != 0x80 {
				return fail(bad("SUBACK return code %#x", c))
			}
			p.QoSs = append(p.QoSs, c)
		}
		if len(p.QoSs) == 0 {
			return fail(bad("SUBACK without return code"))
		}
	case UNSUBSCRIBE:
		if e := wantFlags(2); e != nil {
			return fail(e)
		}
		var e error
		if p.ID, e = r.u16(); e != nil {
			return fail(e)
		}
		if p.ID == 0 {
			return fail(bad("UNSUBSCRIBE with packet identifier 0"))
		}
		for r.left() > 0 {
			f, e := r.str()
			if e != nil {
				return fail(e)
			}
			p.Filters = append(p.Filters, f)
		}
		if len(p.Filters) == 0 {
			return fail(bad("UNSUBSCRIBE without topic filter"))
		}
	case PINGREQ, PINGRESP, DISCONNECT:
		if e := wantFlags(0); e != nil {
			return fail(e)
		}
		if remlen != 0 {
			return fail(bad("%s with remaining length %d", TypeName(p.Type), remlen))
		}
	default:
		return fail(bad("reserved packet type %d", p.Type))
	}
	return p, total, nil
}

// Stream incrementally parses a byte stream.
type Stream struct {
	buf []byte
	Err error
	// Offset of the first unparsed byte in the whole stream.
	Offset int64
	// Lenient selects ParseLenient.
	Lenient bool
}

// Feed appends bytes and returns the packets completed by them.  After a
// parse error the stream is dead (Err set) and returns nothing more.
func (s *Stream) Feed(b []byte) []*Packet {
	if s.Err != nil {
		return nil
	}
	s.buf = append(s.buf, b...)
	var out []*Packet
	for {
		p, n, err := parse(s.buf, s.Lenient)
		if err != nil {
			s.Err = fmt.Errorf("at stream offset %d: %w (bytes % x)", s.Offset, err, head(s.buf, 24))
			return out
		}
		if n == 0 {
			return out
		}
		out = append(out, p)
		s.buf = s.buf[n:]
		s.Offset += int64(n)
	}
}

// Pending returns the number of buffered bytes of an incomplete packet.
func (s *Stream) Pending() int { return len(s.buf) }

func head(b []byte, n int) []byte {
	if len(b) > n {
		return b[:n]
	}
	return b
}

// ValidFilter reports whether f is a valid topic filter (MQTT 3.1.1 §4.7.1).
func ValidFilter(f string) bool {
	if len(f) == 0 {
		return false
	}
	levels := SplitLevels(f)
	for i, l := range levels {
		for j := 0; j < len(l); j++ {
			if (l[j] == '#' || l[j] == '+') && len(l) != 1 {
				return false
			}
		}
		if l == "#" && i != len(levels)-1 {
			return false
		}
	}
	return true
}

// SplitLevels splits a topic on '/'; empty levels are levels.
func SplitLevels(t string) []string {
	var out []string
	start := 0
	for i := 0; i < len(t); i++ {
		if t[i] == '/' {
			out = append(out, t[start:i])
			start = i + 1
		}
	}
	return append(out, t[start:])
}

// Match implements MQTT 3.1.1 §4.7: does topic filter f match topic name t?
// (The $-rule of §4.7.2 is included: a filter starting with a wildcard does
// not match a name starting with '$'.)
func Match(f, t string) bool {
	fl, tl := SplitLevels(f), SplitLevels(t)
	if len(t) > 0 && t[0] == '$' && (fl[0] == "#" || fl[0] == "+") {
		return false
	}
	for i, l := range fl {
		if l == "#" {
			return true // parent level and any number of child levels
		}
		if i >= len(tl) {
			return false
		}
		if l != "+" && l != tl[i] {
			return false
		}
	}
	return len(fl) == len(tl)
}
