//go:build race

package simrt

import "runtime"

// RaceBuild reports whether the binary was built with -race.
const RaceBuild = true

func raceDisable() { runtime.RaceDisable() }
func raceEnable()  { runtime.RaceEnable() }
