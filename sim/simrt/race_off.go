//go:build !race

package simrt

// RaceBuild reports whether the binary was built with -race.
const RaceBuild = false

func raceDisable() {}
func raceEnable()  {}
