// Package simrt is the deterministic cooperative runtime of the go-mqtt
// simulator: tasks, baton, seeded choice stream with trace/replay, virtual
// clock and timers, quiescence and exact hang detection, probes.
//
// Exactly one task holds the baton at any time; every other task goroutine is
// parked on its own channel.  All simulator state is therefore accessed
// sequentially.  The package (like every package under verif/sim) is compiled
// WITHOUT race instrumentation, and baton hand-offs are wrapped in
// runtime.RaceDisable/RaceEnable, so in a -race build ThreadSanitizer sees only
// the synchronisation the library under test performs itself.
package simrt

import (
	"fmt"
	"math/bits"
	"runtime/debug"
	"sort"
	"strings"
	"time"
)

// Status of a finished run.
type Status int

const (
	StatusOK     Status = iota // director returned
	StatusHang                 // nothing runnable, no timer, director not finished
	StatusBudget               // step budget exhausted
	StatusCrash                // a panic reached the top of a task (process would have died)
)

func (s Status) String() string {
	switch s {
	case StatusOK:
		return "ok"
	case StatusHang:
		return "hang"
	case StatusBudget:
		return "budget"
	case StatusCrash:
		return "crash"
	}
	return "?"
}

// WaitKind says what a parked task is waiting for.
type WaitKind uint8

const (
	WNone WaitKind = iota
	WMutex
	WRLock
	WWLock
	WCond
	WWaitGroup
	WOnce
	WConnRead
	WConnWrite
	WAccept
	WSleep
	WQuiesce
	WHarness // harness-level wait (event, join)
)

var waitNames = [...]string{"none", "mutex", "rlock", "wlock", "cond", "waitgroup", "once", "connread", "connwrite", "accept", "sleep", "quiesce", "harness"}

func (w WaitKind) String() string { return waitNames[w] }

// YieldKind labels a scheduling point.
type YieldKind uint8

const (
	YLock YieldKind = iota
	YUnlock
	YRLock
	YRUnlock
	YCondWait
	YCondSignal
	YWaitGroup
	YOnce
	YAtomicLoad
	YAtomicStore
	YAtomicRMW
	YConnRead
	YConnWrite
	YConnClose
	YConnDeadline
	YAccept
	YDial
	YGo
	YTime
	YHarness
	YWoken
	numYieldKinds
)

var yieldNames = [...]string{"lock", "unlock", "rlock", "runlock", "condwait", "condsignal", "waitgroup", "once", "aload", "astore", "armw", "connread", "connwrite", "connclose", "conndeadline", "accept", "dial", "go", "time", "harness", "woken"}

func (y YieldKind) String() string { return yieldNames[y] }

type taskState uint8

const (
	tRunnable taskState = iota
	tBlocked
	tDone
)

// Task is one simulated goroutine.
type Task struct {
	ID   int
	Name string
	Lib  bool // started by a (rewritten) go statement of the library

	state    taskState
	waitKind WaitKind
	waitObj  interface{}
	waitInfo string
	timedOut bool
	prio     int
	park     chan struct{}
	timer    *Timer
	// Scratch slot for shims (e.g. cond notification flag).
	Flag bool
}

// TaskInfo describes a task that was still alive when the run ended.
type TaskInfo struct {
	ID       int
	Name     string
	Lib      bool
	Runnable bool
	Wait     string
	Info     string
}

// Timer is a virtual-time timer.
type Timer struct {
	at      time.Duration
	seq     uint64
	fn      func()
	stopped bool
	idx     int
}

// Stop cancels the timer.
func (t *Timer) Stop() {
	if t != nil {
		t.stopped = true
	}
}

// Config of one run.
type Config struct {
	Seed     uint64
	Replay   *Trace // if non-nil, choices come from here instead of the PRNG
	MaxSteps int
	Verbose  bool // keep a textual event log
}

// Trace is the recorded run-time choice stream in sparse form: Len draws were
// made, all zero except those listed.
type Trace struct {
	Len int      `json:"len"`
	Idx []int    `json:"idx"`
	Val []uint32 `json:"val"`
}

// Result of a run.
type Result struct {
	Status     Status
	CrashMsg   string
	CrashStack string
	CrashTask  string
	Steps      int
	Switches   int
	VTime      time.Duration
	Left       []TaskInfo // tasks not finished when the run ended
	HeldLocks  []string
	Trace      Trace
	SchedHash  uint64
	LogHash    uint64
	StateSigs  map[uint64]struct{}
	Probes     map[string]int
	Faults     map[string]int
	Strategy   string
	Log        []string
	// LibOnlyTail: number of scheduling steps at the end of the run during
	// which only library tasks took steps (every harness task was parked);
	// LastTask: the task that was running when the run ended.
	LibOnlyTail int
	LastTask    string
}

// Sim is one simulated execution.
type Sim struct {
	lastHarness int // last step taken by a task that is not library code
	cfg         Config
	rng         splitmix
	cur         *Task
	tasks       []*Task
	nrun        int // number of runnable tasks

	now    time.Duration
	timers timerHeap
	tseq   uint64

	steps    int
	switches int
	seq      int64
	ended    bool
	result   Result
	endCh    chan struct{}

	quiescers []*Task

	// choice stream
	draws  int
	tIdx   []int
	tVal   []uint32
	rpos   int // position in replay sparse list
	replay *Trace

	// strategy
	strat     int
	switchP   [numYieldKinds]uint32 // probability * 2^32 (saturating) per yield kind
	pctPoints []int
	pctNext   int
	pctLow    int

	schedHash uint64
	logHash   uint64
	stateSigs []uint64
	probes    counters
	faults    counters
	log       []string

	// registry of held simulated locks (for leak detection); no Go maps in
	// state that several tasks touch: the runtime's map code carries race
	// detector hooks even when the calling package is not instrumented
	locks []heldLock

	// StateSig, if set, is called at every switch to fold a world-specific
	// abstract state into the reach measure.
	StateSig func() uint64

	// values carried for the harness
	Values map[string]interface{}
}

var cur *Sim

// Cur returns the running simulation or nil.
//
//go:noinline
func Cur() *Sim { return cur }

// ---------------------------------------------------------------- PRNG

type splitmix uint64

func (s *splitmix) next() uint64 {
	*s += 0x9e3779b97f4a7c15
	z := uint64(*s)
	z = (z ^ (z >> 30)) * 0xbf58476d1ce4e5b9
	z = (z ^ (z >> 27)) * 0x94d049bb133111eb
	return z ^ (z >> 31)
}

// Mix derives a sub-seed.
func Mix(a, b uint64) uint64 {
	s := splitmix(a ^ (b * 0x9e3779b97f4a7c15) ^ 0x632be59bd9b4e019)
	s.next()
	return s.next()
}

// Rand is a small deterministic PRNG for script generation (not part of the
// run-time choice stream).
type Rand struct{ s splitmix }

func NewRand(seed uint64) *Rand { r := &Rand{s: splitmix(seed)}; r.s.next(); return r }
func (r *Rand) Uint64() uint64  { return r.s.next() }
func (r *Rand) Intn(n int) int {
	if n <= 1 {
		return 0
	}
	hi, _ := bits.Mul64(r.s.next(), uint64(n))
	return int(hi)
}
func (r *Rand) Bool(num, den int) bool { return r.Intn(den) < num }
func (r *Rand) Range(lo, hi int) int   { return lo + r.Intn(hi-lo+1) }

// ---------------------------------------------------------------- choices

func (s *Sim) record(v uint32) {
	if v != 0 {
		s.tIdx = append(s.tIdx, s.draws)
		s.tVal = append(s.tVal, v)
	}
	s.draws++
}

func (s *Sim) replayed() uint32 {
	r := s.replay
	for s.rpos < len(r.Idx) && r.Idx[s.rpos] < s.draws {
		s.rpos++
	}
	if s.rpos < len(r.Idx) && r.Idx[s.rpos] == s.draws {
		return r.Val[s.rpos]
	}
	return 0
}

// Choose returns a value in [0,n).  0 is always the "plain" choice.
func (s *Sim) Choose(n int) int {
	if n <= 1 {
		return 0
	}
	var v uint32
	if s.replay != nil {
		v = s.replayed()
		if int(v) >= n {
			v = uint32(n - 1)
		}
	} else {
		hi, _ := bits.Mul64(s.rng.next(), uint64(n))
		v = uint32(hi)
	}
	s.record(v)
	return int(v)
}

// ChooseP returns true with probability p32/2^32.
func (s *Sim) chooseP(p32 uint32) bool {
	var v uint32
	if s.replay != nil {
		if s.replayed() != 0 {
			v = 1
		}
	} else if p32 != 0 && uint32(s.rng.next()>>32) < p32 {
		v = 1
	}
	s.record(v)
	return v == 1
}

// Chance returns true with probability num/den (a fault or unusual event).
func (s *Sim) Chance(num, den int) bool {
	if num <= 0 {
		// still a draw so that traces stay aligned when knobs change is not a goal
		return false
	}
	if num >= den {
		return true
	}
	return s.chooseP(uint32((uint64(num) << 32) / uint64(den)))
}

// ---------------------------------------------------------------- lifecycle

// Run executes director as task 0 of a fresh simulation and returns when the
// run has ended.  It must be called from a goroutine that is not a task.
func Run(cfg Config, setup func(s *Sim), director func(s *Sim)) *Result {
	if cur != nil {
		panic("simrt: nested Run")
	}
	if cfg.MaxSteps == 0 {
		cfg.MaxSteps = 200000
	}
	s := &Sim{
		cfg:       cfg,
		rng:       splitmix(cfg.Seed),
		endCh:     make(chan struct{}, 1),
		replay:    cfg.Replay,
		Values:    map[string]interface{}{},
		schedHash: 14695981039346656037,
		logHash:   14695981039346656037,
	}
	s.rng.next()
	s.pickStrategy()
	if setup != nil {
		setup(s)
	}
	cur = s
	t := s.newTask("director", false)
	s.cur = t
	go s.taskMain(t, func() { director(s) }, true)
	raceDisable()
	t.park <- struct{}{}
	<-s.endCh
	raceEnable()
	cur = nil
	r := &s.result
	r.Steps = s.steps
	r.LibOnlyTail = s.steps - s.lastHarness
	if s.cur != nil {
		r.LastTask = s.cur.Name
	}
	r.Switches = s.switches
	r.VTime = s.now
	r.Trace = Trace{Len: s.draws, Idx: s.tIdx, Val: s.tVal}
	r.SchedHash = s.schedHash
	r.LogHash = s.logHash
	r.StateSigs = map[uint64]struct{}{}
	for _, h := range s.stateSigs {
		r.StateSigs[h] = struct{}{}
	}
	r.Probes = s.probes.toMap()
	r.Faults = s.faults.toMap()
	r.Log = s.log
	for _, t := range s.tasks {
		if t.state != tDone {
			r.Left = append(r.Left, TaskInfo{ID: t.ID, Name: t.Name, Lib: t.Lib, Runnable: t.state == tRunnable, Wait: t.waitKind.String(), Info: t.waitInfo})
		}
	}
	r.HeldLocks = s.HeldLocks()
	return r
}

func (s *Sim) pickStrategy() {
	// Strategy parameters are part of the choice stream so that a trace
	// replays them.
	s.strat = s.Choose(4)
	switch s.strat {
	case 0, 1, 2: // random walk with per-kind boosts
		ps := []uint32{0, 1 << 25, 1 << 27, 1 << 28, 1 << 29, 1 << 30, 3 << 30, 0xe0000000}
		base := ps[s.Choose(len(ps))]
		for k := range s.switchP {
			s.switchP[k] = base
		}
		if s.strat >= 1 {
			// targeted: a random subset of kinds always (or often) switches
			n := 1 + s.Choose(3)
			for i := 0; i < n; i++ {
				k := s.Choose(int(numYieldKinds))
				if s.Choose(2) == 0 {
					s.switchP[k] = 0xffffffff
				} else {
					s.switchP[k] = 1 << 31
				}
			}
		}
		s.result.Strategy = fmt.Sprintf("rw%d", s.strat)
	case 3: // PCT: priorities + d change points
		hs := []int{100, 400, 1500, 6000, 20000}
		h := hs[s.Choose(len(hs))]
		d := 1 + s.Choose(5)
		for i := 0; i < d; i++ {
			s.pctPoints = append(s.pctPoints, s.Choose(h))
		}
		sort.Ints(s.pctPoints)
		s.result.Strategy = "pct"
	}
}

func (s *Sim) newTask(name string, lib bool) *Task {
	t := &Task{ID: len(s.tasks), Name: name, Lib: lib, park: make(chan struct{}, 1)}
	if s.strat == 3 {
		t.prio = 1000 + s.Choose(1000)
	}
	s.tasks = append(s.tasks, t)
	s.nrun++
	return t
}

func (s *Sim) taskMain(t *Task, fn func(), director bool) {
	raceDisable()
	<-t.park
	raceEnable()
	defer func() {
		if r := recover(); r != nil {
			if _, ok := r.(endOfRun); ok {
				return
			}
			s.crash(t, fmt.Sprint(r), string(debug.Stack()))
		}
	}()
	fn()
	// task finished
	t.state = tDone
	s.nrun--
	s.hashEvent(7, int64(t.ID), 0)
	if director {
		s.end(StatusOK)
		return
	}
	s.dispatch(nil)
}

type endOfRun struct{}

func (s *Sim) crash(t *Task, msg, stack string) {
	if s.ended {
		return
	}
	s.result.CrashMsg = msg
	s.result.CrashStack = stack
	s.result.CrashTask = t.Name
	s.end(StatusCrash)
}

// Fatal models a Go runtime fatal error (not recoverable), e.g. unlock of an
// unlocked mutex: the process dies.
func (s *Sim) Fatal(msg string) {
	s.result.CrashMsg = "fatal error: " + msg
	s.result.CrashStack = string(debug.Stack())
	s.result.CrashTask = s.cur.Name
	s.end(StatusCrash)
	s.parkForever()
}

func (s *Sim) end(st Status) {
	if s.ended {
		return
	}
	s.ended = true
	s.result.Status = st
	raceDisable()
	s.endCh <- struct{}{}
	raceEnable()
}

func (s *Sim) parkForever() {
	raceDisable()
	select {}
}

// Go starts a new task.
func (s *Sim) Go(name string, lib bool, fn func()) *Task {
	t := s.newTask(name, lib)
	s.hashEvent(6, int64(t.ID), 0)
	go s.taskMain(t, fn, false)
	s.Yield(YGo)
	return t
}

// Go is what a rewritten `go` statement of the library calls.
//
//go:noinline
func Go(site string, fn func()) {
	s := cur
	if s == nil {
		go fn()
		return
	}
	s.Go(site, true, fn)
}

// Current returns the task holding the baton.
func (s *Sim) Current() *Task { return s.cur }

// Now returns virtual time since the start of the run.
func (s *Sim) Now() time.Duration { return s.now }

// Steps returns the number of scheduling points passed so far.
func (s *Sim) Steps() int { return s.steps }

// Stamp returns the next global event sequence number.
func (s *Sim) Stamp() int64 { s.seq++; return s.seq }

// Ended reports whether the run is over (used by abandoned code paths).
func (s *Sim) Ended() bool { return s.ended }

// ---------------------------------------------------------------- scheduling

func (s *Sim) runnable() []*Task {
	out := make([]*Task, 0, 8)
	for _, t := range s.tasks {
		if t.state == tRunnable {
			out = append(out, t)
		}
	}
	return out
}

// Yield is a scheduling point: the simulator may hand the baton to another
// runnable task.
func (s *Sim) Yield(k YieldKind) {
	if s.ended {
		s.parkForever()
	}
	s.steps++
	if !s.cur.Lib {
		s.lastHarness = s.steps
	}
	if s.steps > s.cfg.MaxSteps {
		s.end(StatusBudget)
		s.parkForever()
	}
	me := s.cur
	var next *Task
	if s.strat == 3 {
		for s.pctNext < len(s.pctPoints) && s.steps >= s.pctPoints[s.pctNext] {
			s.pctNext++
			s.pctLow--
			me.prio = s.pctLow
		}
		if s.nrun <= 1 {
			return
		}
		next = s.highest()
	} else {
		if s.nrun <= 1 {
			return
		}
		if !s.chooseP(s.switchP[k]) {
			return
		}
		rs := s.runnable()
		next = rs[s.Choose(len(rs))]
	}
	if next == me {
		return
	}
	s.noteSwitch(me, next, k)
	s.cur = next
	raceDisable()
	next.park <- struct{}{}
	<-me.park
	raceEnable()
	if s.ended {
		s.parkForever()
	}
}

func (s *Sim) highest() *Task {
	var best *Task
	for _, t := range s.tasks {
		if t.state == tRunnable && (best == nil || t.prio > best.prio) {
			best = t
		}
	}
	return best
}

func (s *Sim) noteSwitch(from, to *Task, k YieldKind) {
	s.switches++
	h := s.schedHash
	h = (h ^ uint64(to.ID)) * 1099511628211
	h = (h ^ uint64(k)) * 1099511628211
	s.schedHash = h
	if s.StateSig != nil {
		s.stateSigs = append(s.stateSigs, s.StateSig())
	}
}

// Block parks the current task until another task (or a timer) wakes it.
func (s *Sim) Block(k WaitKind, obj interface{}, info string) {
	if s.ended {
		s.parkForever()
	}
	me := s.cur
	me.state = tBlocked
	me.waitKind = k
	me.waitObj = obj
	me.waitInfo = info
	s.nrun--
	s.steps++
	s.dispatch(me)
	me.waitKind = WNone
	me.waitObj = nil
	me.waitInfo = ""
}

// BlockUntil is Block with a virtual-time deadline; it reports whether the
// deadline fired.  deadline < 0 means none.
func (s *Sim) BlockUntil(k WaitKind, obj interface{}, info string, deadline time.Duration) bool {
	me := s.cur
	me.timedOut = false
	if deadline >= 0 {
		me.timer = s.AddTimer(deadline, func() {
			me.timedOut = true
			s.Wake(me)
		})
	}
	s.Block(k, obj, info)
	if me.timer != nil {
		me.timer.Stop()
		me.timer = nil
	}
	return me.timedOut
}

// Wake makes a blocked task runnable.
func (s *Sim) Wake(t *Task) {
	if t.state == tBlocked {
		t.state = tRunnable
		s.nrun++
	}
}

// dispatch hands the baton to some runnable task; me (may be nil when the
// caller's task has finished) parks until it is chosen again.
func (s *Sim) dispatch(me *Task) {
	for s.nrun == 0 {
		// nothing runnable: quiescence, then time, then hang
		if len(s.quiescers) > 0 {
			for _, q := range s.quiescers {
				s.Wake(q)
			}
			s.quiescers = s.quiescers[:0]
			break
		}
		if !s.advanceTime() {
			s.result.Status = StatusHang
			s.end(StatusHang)
			if me != nil {
				s.parkForever()
			}
			return
		}
	}
	var next *Task
	if s.strat == 3 {
		next = s.highest()
	} else {
		rs := s.runnable()
		next = rs[s.Choose(len(rs))]
	}
	if next == me {
		return
	}
	if me != nil {
		s.noteSwitch(me, next, YWoken)
	} else {
		s.switches++
	}
	s.cur = next
	raceDisable()
	next.park <- struct{}{}
	if me != nil {
		<-me.park
	}
	raceEnable()
	if me != nil && s.ended {
		s.parkForever()
	}
}

// Quiesce parks the calling (harness) task until no other task is runnable
// without advancing virtual time.
func (s *Sim) Quiesce() {
	s.quiescers = append(s.quiescers, s.cur)
	s.Block(WQuiesce, nil, "")
}

// Sleep parks the calling task for d of virtual time.
func (s *Sim) Sleep(d time.Duration) {
	if d <= 0 {
		s.Yield(YTime)
		return
	}
	me := s.cur
	s.AddTimer(s.now+d, func() { s.Wake(me) })
	s.Block(WSleep, nil, fmt.Sprintf("until %v", s.now+d))
}

// ---------------------------------------------------------------- timers

type timerHeap []*Timer

func (h timerHeap) less(i, j int) bool {
	if h[i].at != h[j].at {
		return h[i].at < h[j].at
	}
	return h[i].seq < h[j].seq
}
func (h timerHeap) swap(i, j int) { h[i], h[j] = h[j], h[i]; h[i].idx = i; h[j].idx = j }
func (h *timerHeap) push(t *Timer) {
	*h = append(*h, t)
	i := len(*h) - 1
	t.idx = i
	for i > 0 {
		p := (i - 1) / 2
		if !h.less(i, p) {
			break
		}
		h.swap(i, p)
		i = p
	}
}
func (h *timerHeap) pop() *Timer {
	old := *h
	n := len(old)
	top := old[0]
	old.swap(0, n-1)
	*h = old[:n-1]
	i := 0
	for {
		l, r, m := 2*i+1, 2*i+2, i
		if l < n-1 && h.less(l, m) {
			m = l
		}
		if r < n-1 && h.less(r, m) {
			m = r
		}
		if m == i {
			break
		}
		h.swap(i, m)
		i = m
	}
	return top
}

// AddTimer schedules fn (run under the baton, must not block) at virtual time at.
func (s *Sim) AddTimer(at time.Duration, fn func()) *Timer {
	if at < s.now {
		at = s.now
	}
	s.tseq++
	t := &Timer{at: at, seq: s.tseq, fn: fn}
	s.timers.push(t)
	return t
}

// advanceTime jumps to the earliest pending timer and fires every timer due at
// that instant (ties in PRNG order).  Reports false if there is no timer.
func (s *Sim) advanceTime() bool {
	for len(s.timers) > 0 && s.timers[0].stopped {
		s.timers.pop()
	}
	if len(s.timers) == 0 {
		return false
	}
	at := s.timers[0].at
	var due []*Timer
	for len(s.timers) > 0 && s.timers[0].at == at {
		t := s.timers.pop()
		if !t.stopped {
			due = append(due, t)
		}
	}
	s.now = at
	for len(due) > 0 {
		i := 0
		if len(due) > 1 {
			i = s.Choose(len(due))
		}
		t := due[i]
		due = append(due[:i], due[i+1:]...)
		if !t.stopped {
			t.fn()
		}
	}
	s.hashEvent(5, int64(at), 0)
	return true
}

// PendingTimers reports whether any timer is pending (diagnostics).
func (s *Sim) PendingTimers() int {
	n := 0
	for _, t := range s.timers {
		if !t.stopped {
			n++
		}
	}
	return n
}

// ---------------------------------------------------------------- observation

func (s *Sim) hashEvent(kind uint64, a, b int64) {
	h := s.logHash
	h = (h ^ kind) * 1099511628211
	h = (h ^ uint64(a)) * 1099511628211
	h = (h ^ uint64(b)) * 1099511628211
	h = (h ^ uint64(s.steps)) * 1099511628211
	s.logHash = h
}

// Event folds a harness-level event into the determinism fingerprint.
func (s *Sim) Event(kind string, a, b int64) {
	var k uint64 = 1469598103
	for i := 0; i < len(kind); i++ {
		k = (k ^ uint64(kind[i])) * 1099511628211
	}
	s.hashEvent(k, a, b)
	if s.cfg.Verbose {
		s.log = append(s.log, fmt.Sprintf("%7d %10v t%-2d %s %d %d", s.steps, s.now, s.cur.ID, kind, a, b))
	}
}

// Logf appends to the textual log (verbose runs only) and to the fingerprint.
func (s *Sim) Logf(format string, args ...interface{}) {
	if s.cfg.Verbose {
		s.log = append(s.log, fmt.Sprintf("%7d %10v t%-2d ", s.steps, s.now, s.cur.ID)+fmt.Sprintf(format, args...))
	}
}

// Verbose reports whether a textual log is kept.
func (s *Sim) Verbose() bool { return s.cfg.Verbose }

type counter struct {
	name string
	n    int
}

type counters []counter

func (c *counters) inc(name string) {
	for i := range *c {
		if (*c)[i].name == name {
			(*c)[i].n++
			return
		}
	}
	*c = append(*c, counter{name, 1})
}

func (c counters) toMap() map[string]int {
	m := map[string]int{}
	for _, x := range c {
		m[x.name] = x.n
	}
	return m
}

type heldLock struct {
	l   interface{}
	who string
}

// Probe counts a "this rare condition was reached" event.
func (s *Sim) Probe(name string) { s.probes.inc(name) }

// Fault counts a fault that actually fired.
func (s *Sim) Fault(kind string) { s.faults.inc(kind) }

// FaultCount returns how often a fault kind has fired in this run.
func (s *Sim) FaultCount(kind string) int {
	for _, c := range s.faults {
		if c.name == kind {
			return c.n
		}
	}
	return 0
}

// LockHeld / LockFree maintain the registry of held simulated locks.
func (s *Sim) LockHeld(l interface{}, who string) {
	for i := range s.locks {
		if s.locks[i].l == l {
			s.locks[i].who = who
			return
		}
	}
	s.locks = append(s.locks, heldLock{l, who})
}

func (s *Sim) LockFree(l interface{}) {
	for i := range s.locks {
		if s.locks[i].l == l {
			// (manual shift: runtime.slicecopy carries race detector hooks)
			for j := i; j+1 < len(s.locks); j++ {
				s.locks[j] = s.locks[j+1]
			}
			s.locks[len(s.locks)-1] = heldLock{}
			s.locks = s.locks[:len(s.locks)-1]
			return
		}
	}
}

// HeldLocks lists the holders of all simulated locks that are currently held.
func (s *Sim) HeldLocks() []string {
	var out []string
	for _, h := range s.locks {
		out = append(out, h.who)
	}
	sort.Strings(out)
	return out
}

// Tasks returns a snapshot describing every live task.
func (s *Sim) Tasks() []TaskInfo {
	var out []TaskInfo
	for _, t := range s.tasks {
		if t.state != tDone {
			out = append(out, TaskInfo{ID: t.ID, Name: t.Name, Lib: t.Lib, Runnable: t.state == tRunnable, Wait: t.waitKind.String(), Info: t.waitInfo})
		}
	}
	return out
}

// WaitingOn returns what task t is parked on.
func (t *Task) WaitingOn() (WaitKind, interface{}) {
	if t.state != tBlocked {
		return WNone, nil
	}
	return t.waitKind, t.waitObj
}

// Done reports whether the task has finished.
func (t *Task) Done() bool { return t.state == tDone }

// Blocked reports whether the task is parked.
func (t *Task) Blocked() bool { return t.state == tBlocked }

// LibTasksAlive returns the library-created tasks that have not finished.
func (s *Sim) LibTasksAlive() []TaskInfo {
	var out []TaskInfo
	for _, ti := range s.Tasks() {
		if ti.Lib {
			out = append(out, ti)
		}
	}
	return out
}

// FormatTasks renders a task table.
func FormatTasks(ts []TaskInfo) string {
	var b strings.Builder
	for _, t := range ts {
		st := "blocked:" + t.Wait
		if t.Runnable {
			st = "runnable"
		}
		fmt.Fprintf(&b, "[t%d %s %s %s]", t.ID, t.Name, st, t.Info)
	}
	return b.String()
}

// ---------------------------------------------------------------- helpers

// Keys returns the keys of a map in a deterministic order (sorted by their
// printed form), then permuted by the choice stream when called inside a run:
// it replaces Go's randomised map iteration in rewritten library code.
//
//go:noinline
func Keys[M ~map[K]V, K comparable, V any](m M) []K {
	ks := make([]K, 0, len(m))
	for k := range m {
		ks = append(ks, k)
	}
	if len(ks) < 2 {
		return ks
	}
	switch any(ks).(type) {
	case []string:
		ss := any(ks).([]string)
		sort.Strings(ss)
	default:
		sort.Slice(ks, func(i, j int) bool { return fmt.Sprint(ks[i]) < fmt.Sprint(ks[j]) })
	}
	if s := cur; s != nil && !s.ended {
		// Fisher-Yates from the choice stream; choice 0 everywhere = sorted order
		for i := 0; i < len(ks)-1; i++ {
			j := i + s.Choose(len(ks)-i)
			ks[i], ks[j] = ks[j], ks[i]
		}
	}
	return ks
}

// Event is a harness-level signal tasks can wait for.
type Event struct {
	set     bool
	waiters []*Task
}

// Set fires the event.
func (e *Event) Set(s *Sim) {
	e.set = true
	for _, w := range e.waiters {
		s.Wake(w)
	}
	e.waiters = nil
}

// IsSet reports whether the event fired.
func (e *Event) IsSet() bool { return e.set }

// Wait parks until the event fires.
func (e *Event) Wait(s *Sim) {
	for !e.set {
		e.waiters = append(e.waiters, s.cur)
		s.Block(WHarness, e, "event")
	}
}

// Pulse is a harness-level broadcast: Wait parks the caller until the next
// Signal.
type Pulse struct{ waiters []*Task }

// Wait parks until the next Signal.
func (p *Pulse) Wait(s *Sim) {
	p.waiters = append(p.waiters, s.cur)
	s.Block(WHarness, p, "pulse")
}

// Signal wakes every task parked in Wait.
func (p *Pulse) Signal(s *Sim) {
	for _, w := range p.waiters {
		s.Wake(w)
	}
	p.waiters = nil
}

// SleepToNextTimer parks the caller until the earliest pending timer has
// fired (virtual time jumps there once nothing else is runnable).  It reports
// false if no timer is pending.
func (s *Sim) SleepToNextTimer() bool {
	for len(s.timers) > 0 && s.timers[0].stopped {
		s.timers.pop()
	}
	if len(s.timers) == 0 {
		return false
	}
	at := s.timers[0].at
	me := s.cur
	s.AddTimer(at, func() { s.Wake(me) })
	s.Block(WSleep, nil, "next timer")
	return true
}
