// Package ring simulates one ring buffer of package service with one producer
// task, one consumer task and (C15) closer tasks.  C14: lossless FIFO; C15: no
// lost wake-up, Close always unblocks.
package ring

import (
	"bufio"
	"errors"
	"fmt"
	"io"

	"github.com/mdzio/go-mqtt/service"

	"verif/sim/simrt"
	"verif/sim/world"
)

// Op is one producer or consumer operation.
type Op struct {
	Kind   string `json:"k"`           // producer: write reserve readfrom; consumer: read peek wait writeto
	N      int    `json:"n"`           // byte count / total
	Chunks []int  `json:"c,omitempty"` // chunk sizes for readfrom/writeto
	ErrEnd bool   `json:"e,omitempty"` // readfrom: end with an error instead of EOF; writeto: writer fails at the end
}

// Closer calls Close after waiting for a number of scheduling rounds.
type Closer struct {
	Delay int `json:"d"` // yields before closing
	Times int `json:"t"` // how often this task calls Close
}

// Script of a ring run.
type Script struct {
	Size    int      `json:"size"`
	Cfg     int      `json:"cfg,omitempty"` // if non-zero: the size asked for (the library rounds it up to Size)
	Prod    []Op     `json:"prod"`
	Cons    []Op     `json:"cons"`
	Closers []Closer `json:"closers,omitempty"`
	// Quantified: chunk sizes satisfy producer need + consumer need <= size and
	// the consumer never asks for more than the producer provides (C14).
	Quantified bool `json:"quantified"`
}

func streamByte(i int64) byte {
	x := uint64(i)*0x9e3779b97f4a7c15 + 0x1234567
	x ^= x >> 29
	x *= 0xbf58476d1ce4e5b9
	return byte(x >> 37)
}

func fill(p []byte, pos int64) {
	for i := range p {
		p[i] = streamByte(pos + int64(i))
	}
}

func firstDiff(p []byte, pos int64) int {
	for i := range p {
		if p[i] != streamByte(pos+int64(i)) {
			return i
		}
	}
	return -1
}

type state struct {
	s    *simrt.Sim
	out  *world.Outcome
	buf  *service.VerifBuffer
	size int64

	// model cursors
	pStart, pDone int64 // producer: bytes whose commit has started / returned
	cStart, cDone int64 // consumer: likewise
	closed        bool  // a Close call has started
	closeDone     bool  // some Close call has returned

	// what the two parties are doing (for the quiescence oracle)
	prodNeed, consNeed int    // bytes the parked call needs (0 = not in a waiting call)
	prodIn, consIn     string // name of the call in progress
	prodEnded, consEnd bool
	closedByOther      bool
	lateIn             string
	reader             *simReader
}

func (st *state) viol(prop, inv, sig, format string, a ...interface{}) {
	st.out.Add(prop, inv, sig, fmt.Sprintf(format, a...))
}

// checkData verifies bytes obtained by the consumer at stream position pos.
func (st *state) checkData(call string, p []byte, pos int64) bool {
	if d := firstDiff(p, pos); d >= 0 {
		st.viol("C14", "stream-content", "C14/content/"+call, "%s returned %d bytes at stream position %d; byte %d is %#x, stream has %#x (P_started=%d, size=%d)", call, len(p), pos, d, p[d], streamByte(pos+int64(d)), st.pStart, st.size)
		return false
	}
	if pos+int64(len(p)) > st.pStart {
		st.viol("C14", "beyond-producer", "C14/beyond/"+call, "%s returned bytes up to position %d but the producer has only started committing %d", call, pos+int64(len(p)), st.pStart)
		return false
	}
	return true
}

type simReader struct {
	st     *state
	chunks []int
	left   int
	errEnd bool
	pos    int64
}

var errInjected = errors.New("injected reader error")

func (r *simReader) Read(p []byte) (int, error) {
	// the commit of the previous chunk has returned
	r.st.pDone = r.pos
	r.st.s.Yield(simrt.YHarness)
	if r.left == 0 {
		// ReadFrom closes the buffer on its way out
		r.st.closed = true
		if r.errEnd {
			return 0, errInjected
		}
		return 0, io.EOF
	}
	n := r.left
	if len(r.chunks) > 0 {
		if r.chunks[0] < n {
			n = r.chunks[0]
		}
		r.chunks = r.chunks[1:]
	}
	if n > len(p) {
		n = len(p)
	}
	if n == 0 {
		n = 1
	}
	fill(p[:n], r.pos)
	// the commit of these bytes starts when ReadFrom calls WriteCommit
	r.st.pStart = r.pos + int64(n)
	r.pos += int64(n)
	r.left -= n
	return n, nil
}

type simWriter struct {
	st     *state
	limit  int
	errEnd bool
}

func (w *simWriter) Write(p []byte) (int, error) {
	st := w.st
	st.s.Yield(simrt.YHarness)
	n := len(p)
	fail := false
	if n >= w.limit && w.errEnd {
		n = w.limit
		fail = true
	}
	st.checkData("WriteTo", p[:n], st.cDone)
	if fail {
		// WriteTo does not commit what a failed Write consumed, and closes
		// the buffer on its way out
		st.closed, st.closedByOther = true, true
		return n, errInjected
	}
	w.limit -= n
	if w.limit < 0 {
		w.limit = 0
	}
	st.cStart = st.cDone + int64(n)
	// WriteTo commits n right after we return
	st.cDone += int64(n)
	return n, nil
}

func (st *state) producer(ops []Op) {
	s := st.s
	defer func() { st.prodEnded = true; st.prodIn = ""; st.prodNeed = 0 }()
	for _, op := range ops {
		s.Yield(simrt.YHarness)
		switch op.Kind {
		case "write":
			p := make([]byte, op.N)
			fill(p, st.pDone)
			st.prodIn, st.prodNeed = "Write", op.N
			st.pStart = st.pDone + int64(op.N)
			n, err := st.buf.Write(p)
			st.prodIn, st.prodNeed = "", 0
			if err != nil {
				st.pStart = st.pDone
				if !st.afterClose("Write", err) {
					return
				}
				return
			}
			if n != op.N {
				st.viol("C14", "write-count", "C14/count/Write", "Write(%d bytes) returned %d", op.N, n)
			}
			st.pDone += int64(op.N)
		case "reserve":
			st.prodIn, st.prodNeed = "WriteWait", op.N
			b, wrap, err := st.buf.WriteWait(op.N)
			st.prodIn, st.prodNeed = "", 0
			if err != nil {
				st.afterClose("WriteWait", err)
				return
			}
			if wrap {
				s.Probe("reserve_wrapped")
				p := make([]byte, op.N)
				fill(p, st.pDone)
				st.prodIn, st.prodNeed = "Write", op.N
				st.pStart = st.pDone + int64(op.N)
				n, err := st.buf.Write(p)
				st.prodIn, st.prodNeed = "", 0
				if err != nil {
					st.pStart = st.pDone
					st.afterClose("Write", err)
					return
				}
				if n != op.N {
					st.viol("C14", "write-count", "C14/count/Write", "Write(%d bytes) returned %d", op.N, n)
				}
				st.pDone += int64(op.N)
				continue
			}
			if len(b) < op.N {
				st.viol("C14", "reserve-short", "C14/count/WriteWait", "WriteWait(%d) returned %d bytes without wrap", op.N, len(b))
				return
			}
			fill(b[:op.N], st.pDone)
			s.Yield(simrt.YHarness)
			st.prodIn, st.prodNeed = "WriteCommit", op.N
			st.pStart = st.pDone + int64(op.N)
			n, err := st.buf.WriteCommit(op.N)
			st.prodIn, st.prodNeed = "", 0
			if err != nil {
				st.pStart = st.pDone
				st.afterClose("WriteCommit", err)
				return
			}
			if n != op.N {
				st.viol("C14", "commit-count", "C14/count/WriteCommit", "WriteCommit(%d) returned %d", op.N, n)
			}
			st.pDone += int64(op.N)
		case "readfrom":
			r := &simReader{st: st, chunks: append([]int{}, op.Chunks...), left: op.N, errEnd: op.ErrEnd, pos: st.pDone}
			st.prodIn, st.prodNeed = "ReadFrom", 8192
			st.reader = r
			n, err := st.buf.ReadFrom(r)
			st.reader = nil
			st.prodIn, st.prodNeed = "", 0
			// ReadFrom closes the buffer when it returns
			st.closed, st.closeDone = true, true
			if err == nil {
				st.viol("C15", "readfrom-nil", "C15/ReadFrom/nil-error", "ReadFrom returned a nil error")
			}
			_ = n
			st.pDone = r.pos
			st.pStart = r.pos
			if r.left > 0 && !st.closedByOther {
				st.viol("C15", "readfrom-early", "C15/ReadFrom/early", "ReadFrom returned (%v) with %d bytes still unread although nobody closed the buffer", err, r.left)
			}
			return
		}
	}
}

func (st *state) consumer(ops []Op) {
	s := st.s
	defer func() { st.consEnd = true; st.consIn = ""; st.consNeed = 0 }()
	for _, op := range ops {
		s.Yield(simrt.YHarness)
		switch op.Kind {
		case "read":
			p := make([]byte, op.N)
			st.consIn, st.consNeed = "Read", 1
			n, err := st.buf.Read(p)
			st.consIn, st.consNeed = "", 0
			if err != nil {
				st.afterClose("Read", err)
				return
			}
			if n <= 0 || n > op.N {
				st.viol("C14", "read-count", "C14/count/Read", "Read(len %d) returned n=%d, nil", op.N, n)
				return
			}
			if !st.checkData("Read", p[:n], st.cDone) {
				return
			}
			st.cStart = st.cDone + int64(n)
			st.cDone += int64(n)
		case "peek", "wait":
			var b []byte
			var err error
			if op.Kind == "peek" {
				st.consIn, st.consNeed = "ReadPeek", 1
				b, err = st.buf.ReadPeek(op.N)
			} else {
				st.consIn, st.consNeed = "ReadWait", op.N
				b, err = st.buf.ReadWait(op.N)
			}
			call := st.consIn
			st.consIn, st.consNeed = "", 0
			if err != nil && err != service.ErrBufferInsufficientData {
				st.afterClose(call, err)
				return
			}
			if op.Kind == "wait" && len(b) != op.N {
				st.viol("C14", "wait-count", "C14/count/ReadWait", "ReadWait(%d) returned %d bytes, err=%v", op.N, len(b), err)
				return
			}
			if len(b) > op.N || (len(b) == 0 && err == nil) {
				st.viol("C14", "peek-count", "C14/count/ReadPeek", "ReadPeek(%d) returned %d bytes, err=%v", op.N, len(b), err)
				return
			}
			if !st.checkData(call, b, st.cDone) {
				return
			}
			// the peeked bytes must stay intact until they are committed
			s.Yield(simrt.YHarness)
			s.Yield(simrt.YHarness)
			if d := firstDiff(b, st.cDone); d >= 0 {
				st.viol("C14", "overwritten-before-commit", "C14/overwrite/"+call, "bytes obtained by %s(%d) at stream position %d changed before they were committed (offset %d)", call, op.N, st.cDone, d)
				return
			}
			if len(b) == 0 {
				continue
			}
			st.cStart = st.cDone + int64(len(b))
			n, err := st.buf.ReadCommit(len(b))
			if err != nil {
				if st.closed && err == io.EOF {
					return
				}
				st.viol("C14", "commit-error", "C14/count/ReadCommit", "ReadCommit(%d) after a successful %s failed: %v", len(b), call, err)
				return
			}
			if n != len(b) {
				st.viol("C14", "commit-count", "C14/count/ReadCommit", "ReadCommit(%d) returned %d", len(b), n)
			}
			st.cDone += int64(len(b))
		case "writeto":
			w := &simWriter{st: st, limit: op.N, errEnd: op.ErrEnd}
			st.consIn, st.consNeed = "WriteTo", 1
			_, err := st.buf.WriteTo(w)
			st.consIn, st.consNeed = "", 0
			st.closed, st.closeDone = true, true
			if err == nil {
				st.viol("C15", "writeto-nil", "C15/WriteTo/nil-error", "WriteTo returned a nil error")
			}
			return
		}
	}
}

// afterClose judges an error returned by a ring call: legitimate only as
// end-of-stream after somebody started closing the buffer.
func (st *state) afterClose(call string, err error) bool {
	if st.closed && err == io.EOF {
		return true
	}
	if !st.closed {
		st.viol("C15", "spurious-error", "C15/spurious-error/"+call, "%s failed with %v although nobody closed the buffer", call, err)
		return false
	}
	st.viol("C15", "close-error-kind", "C15/not-eof/"+call, "%s after Close returned %v instead of end-of-stream", call, err)
	return false
}

func (st *state) closer(c Closer) {
	s := st.s
	for i := 0; i < c.Delay; i++ {
		s.Yield(simrt.YHarness)
	}
	for i := 0; i < c.Times; i++ {
		st.closed = true
		st.closedByOther = true
		st.buf.Close()
		st.closeDone = true
		s.Yield(simrt.YHarness)
	}
}

// Run executes a ring script.
func Run(script interface{}, cfg simrt.Config) *world.Outcome {
	sc := script.(*Script)
	out := &world.Outcome{Summary: map[string]interface{}{}}
	var st *state
	if cfg.MaxSteps == 0 {
		cfg.MaxSteps = 400000
	}
	service.VerifResetCounters()
	res := simrt.Run(cfg, nil, func(s *simrt.Sim) {
		cfgSize := sc.Size
		if sc.Cfg != 0 {
			cfgSize = sc.Cfg
		}
		buf, err := service.VerifNewBuffer(int64(cfgSize))
		if err != nil {
			out.Aborted = "newBuffer: " + err.Error()
			return
		}
		st = &state{s: s, out: out, buf: buf}
		st.size = 1
		for st.size < int64(sc.Size) {
			st.size <<= 1
		}
		if st.size < 16384 {
			st.size = 16384
		}
		s.StateSig = st.sig
		var tasks []*simrt.Task
		tasks = append(tasks, s.Go("producer", false, func() { st.producer(sc.Prod) }))
		tasks = append(tasks, s.Go("consumer", false, func() { st.consumer(sc.Cons) }))
		for i, c := range sc.Closers {
			c := c
			tasks = append(tasks, s.Go(fmt.Sprintf("closer%d", i), false, func() { st.closer(c) }))
		}
		s.Quiesce()
		st.judgeQuiescent("quiescence")
		if len(out.Violations) > 0 {
			return
		}
		// Close must return and unblock everybody.
		if !st.closed {
			s.Probe("closed_by_director")
		}
		st.closed = true
		st.closedByOther = true
		closeTask := s.Go("final-close", false, func() { st.buf.Close(); st.closeDone = true })
		tasks = append(tasks, closeTask)
		s.Quiesce()
		for _, t := range tasks {
			if !t.Done() {
				k, _ := t.WaitingOn()
				st.viol("C15", "blocked-after-close", "C15/blocked-after-close/"+t.Name+"/"+st.inCall(t.Name)+"/"+k.String(), "task %s is still parked on %s in %s after Close; tasks: %s; held locks: %v", t.Name, k, st.inCall(t.Name), simrt.FormatTasks(s.Tasks()), s.HeldLocks())
			}
		}
		if len(out.Violations) > 0 {
			return
		}
		// one more call of every kind after Close: each must return
		late := s.Go("late-calls", false, func() { st.lateCalls() })
		s.Quiesce()
		if !late.Done() {
			k, _ := late.WaitingOn()
			st.viol("C15", "late-call-blocks", "C15/late-call-blocks/"+st.lateIn+"/"+k.String(), "%s issued after Close never returns (parked on %s); held locks: %v", st.lateIn, k, s.HeldLocks())
		}
	})
	out.Res = res
	switch res.Status {
	case simrt.StatusCrash:
		out.Add("C15", "panic", "C15/panic", "ring call panicked: "+res.CrashMsg+"\n"+trimStack(res.CrashStack))
	case simrt.StatusBudget:
		out.Aborted = "step budget"
	case simrt.StatusHang:
		out.Aborted = "unexpected hang of the director"
	}
	if st != nil {
		out.Summary["size"] = st.size
		out.Summary["produced"] = st.pDone
		out.Summary["consumed"] = st.cDone
		out.Summary["prod_ops"] = len(sc.Prod)
		out.Summary["cons_ops"] = len(sc.Cons)
		out.Summary["closers"] = len(sc.Closers)
		out.Nontrivial = res.Switches > 2 && st.pDone > 0
	}
	return out
}

func trimStack(s string) string {
	if len(s) > 1200 {
		return s[:1200]
	}
	return s
}

func (st *state) inCall(task string) string {
	switch task {
	case "producer":
		return st.prodIn
	case "consumer":
		return st.consIn
	}
	return "Close"
}

// judgeQuiescent applies the exact parked-task predicate.
func (st *state) judgeQuiescent(when string) {
	s := st.s
	if st.reader != nil {
		// parked inside ReadFrom: every chunk handed out so far is committed
		st.pDone = st.reader.pos
	}
	avail := st.pDone - st.cDone
	free := st.size - avail
	for _, ti := range s.Tasks() {
		if ti.Name == "director" {
			continue
		}
		if ti.Wait == "mutex" {
			st.viol("C15", "parked-on-mutex", "C15/parked-on-mutex/"+ti.Name+"/"+st.inCall(ti.Name), "at %s task %s is parked on a mutex (%s) inside %s; held locks: %v", when, ti.Name, ti.Info, st.inCall(ti.Name), s.HeldLocks())
			continue
		}
		switch ti.Name {
		case "consumer":
			need := int64(st.consNeed)
			if st.closed {
				st.viol("C15", "consumer-parked-closed", "C15/parked-after-close/consumer/"+st.consIn, "at %s the consumer is parked in %s although Close was called", when, st.consIn)
			} else if need > 0 && avail >= need {
				s.Probe("lost_wakeup_consumer")
				st.viol("C15", "lost-wakeup-consumer", "C15/lost-wakeup/consumer/"+st.consIn, "at %s the consumer is parked in %s needing %d byte(s) although %d are committed (P=%d C=%d)", when, st.consIn, need, avail, st.pDone, st.cDone)
			}
		case "producer":
			need := int64(st.prodNeed)
			if st.closed {
				st.viol("C15", "producer-parked-closed", "C15/parked-after-close/producer/"+st.prodIn, "at %s the producer is parked in %s although Close was called", when, st.prodIn)
			} else if need > 0 && free >= need {
				st.viol("C15", "lost-wakeup-producer", "C15/lost-wakeup/producer/"+st.prodIn, "at %s the producer is parked in %s needing %d byte(s) although %d are free (P=%d C=%d size=%d)", when, st.prodIn, need, free, st.pDone, st.cDone, st.size)
			}
		default:
			// closers
			st.viol("C15", "close-blocks", "C15/close-blocks/"+ti.Wait, "at %s task %s has not returned from Close (parked on %s %s); held locks: %v", when, ti.Name, ti.Wait, ti.Info, s.HeldLocks())
		}
	}
}

func (st *state) lateCalls() {
	b := st.buf
	p := make([]byte, 64)
	chk := func(call string, served bool, err error) {
		if err == nil && !served {
			return
		}
		if err != nil && err != io.EOF && err != service.ErrBufferInsufficientData && err != bufio.ErrBufferFull {
			st.viol("C15", "close-error-kind", "C15/not-eof/late-"+call, "%s after Close returned %v", call, err)
		}
	}
	st.lateIn = "Write"
	_, err := b.Write(p)
	chk("Write", false, err)
	st.lateIn = "WriteWait"
	_, _, err = b.WriteWait(64)
	chk("WriteWait", false, err)
	st.lateIn = "WriteCommit"
	_, err = b.WriteCommit(1)
	chk("WriteCommit", false, err)
	st.lateIn = "Read"
	n, err := b.Read(p)
	if err == nil && n > 0 {
		st.checkData("Read", p[:n], st.cDone)
		st.cDone += int64(n)
	}
	st.lateIn = "ReadPeek"
	pb, err := b.ReadPeek(16)
	if (err == nil || err == service.ErrBufferInsufficientData) && len(pb) > 0 {
		st.checkData("ReadPeek", pb, st.cDone)
	}
	st.lateIn = "ReadWait"
	avail := st.pDone - st.cDone
	pb, err = b.ReadWait(int(avail) + 1)
	if err == nil {
		st.viol("C15", "late-wait-served", "C15/late/ReadWait-served", "ReadWait(%d) after Close succeeded although only %d bytes were ever committed", avail+1, avail)
	}
	st.lateIn = "ReadCommit"
	b.ReadCommit(1)
	st.lateIn = "Len"
	b.Len()
	st.lateIn = "Close"
	b.Close()
	st.lateIn = ""
}

func (st *state) sig() uint64 {
	fillB := (st.pDone - st.cDone) * 8 / st.size
	h := uint64(fillB)
	h = h*31 + uint64((st.pDone/st.size)&3)
	h = h*31 + uint64(len(st.prodIn))
	h = h*31 + uint64(len(st.consIn))
	if st.closed {
		h = h*31 + 1
	}
	for _, t := range st.s.Tasks() {
		if !t.Runnable {
			h = h*131 + uint64(t.ID)*7 + uint64(len(t.Wait))
		}
	}
	return h
}
