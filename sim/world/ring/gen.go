package ring

import (
	"verif/sim/simrt"
	"verif/sim/world"
)

func chunk(r *simrt.Rand, max int) int {
	switch r.Intn(10) {
	case 0, 1, 2:
		return 1 + r.Intn(64)
	case 3, 4, 5:
		return 1 + r.Intn(2048)
	case 6:
		return max
	case 7:
		return max - r.Intn(16)
	default:
		return 1 + r.Intn(max)
	}
}

func chunks(r *simrt.Rand, total int) []int {
	var cs []int
	for left := total; left > 0; {
		c := chunk(r, 8192)
		cs = append(cs, c)
		left -= c
	}
	return cs
}

// Gen builds a ring script.  c15 adds closers and non-quantified sizes.
func gen(c15 bool) func(tier string, seed uint64, idx int) interface{} {
	return func(tier string, seed uint64, idx int) interface{} {
		prop := "C14"
		if c15 {
			prop = "C15"
		}
		r := simrt.NewRand(world.RunSeed(seed, prop+"/script", idx))
		sc := &Script{Quantified: true}
		switch r.Intn(10) {
		case 0:
			sc.Size = 65536
		case 1, 2:
			sc.Size = 32768
		default:
			sc.Size = 16384
		}
		if r.Bool(1, 8) {
			// a configured size that the library rounds up: below the minimum of
			// two read blocks, or not a power of two
			if r.Bool(2, 3) {
				sc.Size, sc.Cfg = 16384, []int{1, 100, 4096, 8192, 8193, 12000, 16000}[r.Intn(7)]
			} else {
				sc.Size, sc.Cfg = 32768, []int{16385, 20000, 32767}[r.Intn(3)]
			}
		}
		max := sc.Size / 2
		if c15 && r.Bool(1, 4) {
			sc.Quantified = false
			max = sc.Size
		}
		var total int
		switch r.Intn(8) {
		case 0:
			total = r.Intn(sc.Size * 8)
		case 1, 2:
			total = r.Intn(sc.Size * 3)
		case 3:
			total = r.Intn(200)
		default:
			total = r.Intn(sc.Size + sc.Size/2)
		}
		// producer
		style := r.Intn(6) // 0..2 mixed, 3 only write, 4 only reserve, 5 readfrom
		for left := total; left > 0; {
			n := chunk(r, max)
			if n > left {
				n = left
			}
			k := "write"
			switch {
			case style == 4, style <= 2 && r.Bool(1, 2):
				k = "reserve"
			}
			if style == 5 || (style <= 2 && r.Bool(1, 12)) {
				sc.Prod = append(sc.Prod, Op{Kind: "readfrom", N: left, Chunks: chunks(r, left), ErrEnd: r.Bool(1, 3)})
				break
			}
			sc.Prod = append(sc.Prod, Op{Kind: k, N: n})
			left -= n
		}
		// consumer: may ask for less or (C15) more than what is produced
		want := total
		switch r.Intn(6) {
		case 0:
			want = r.Intn(total + 1)
		case 1:
			if c15 {
				want = total + 1 + r.Intn(max)
			}
		}
		cstyle := r.Intn(7) // 0..2 mixed, 3 read, 4 peek, 5 wait, 6 writeto
		for left := want; left > 0; {
			n := chunk(r, max)
			if n > left {
				n = left
			}
			k := "read"
			switch {
			case cstyle == 4:
				k = "peek"
			case cstyle == 5:
				k = "wait"
			case cstyle <= 2:
				k = []string{"read", "peek", "wait"}[r.Intn(3)]
			}
			if cstyle == 6 || (cstyle <= 2 && r.Bool(1, 12)) {
				sc.Cons = append(sc.Cons, Op{Kind: "writeto", N: left, ErrEnd: r.Bool(1, 3)})
				break
			}
			sc.Cons = append(sc.Cons, Op{Kind: k, N: n})
			// read may return fewer bytes than asked; the plan is only a guide
			left -= n
		}
		if c15 {
			nc := []int{0, 1, 1, 1, 2, 3}[r.Intn(6)]
			for i := 0; i < nc; i++ {
				d := 0
				switch r.Intn(4) {
				case 0:
					d = r.Intn(4)
				case 1:
					d = r.Intn(40)
				default:
					d = r.Intn(4 * (len(sc.Prod) + len(sc.Cons) + 1))
				}
				sc.Closers = append(sc.Closers, Closer{Delay: d, Times: 1 + r.Intn(3)})
			}
		}
		return sc
	}
}

func shrink(script interface{}) []interface{} {
	sc := script.(*Script)
	var out []interface{}
	cp := func() *Script {
		n := *sc
		n.Prod = append([]Op{}, sc.Prod...)
		n.Cons = append([]Op{}, sc.Cons...)
		n.Closers = append([]Closer{}, sc.Closers...)
		return &n
	}
	if len(sc.Prod) > 1 {
		n := cp()
		n.Prod = n.Prod[:len(n.Prod)/2]
		out = append(out, n)
	}
	if len(sc.Cons) > 1 {
		n := cp()
		n.Cons = n.Cons[:len(n.Cons)/2]
		out = append(out, n)
	}
	for i := range sc.Closers {
		n := cp()
		n.Closers = append(n.Closers[:i], n.Closers[i+1:]...)
		out = append(out, n)
	}
	for i := len(sc.Prod) - 1; i >= 0 && len(out) < 80; i-- {
		n := cp()
		n.Prod = append(n.Prod[:i], n.Prod[i+1:]...)
		out = append(out, n)
	}
	for i := len(sc.Cons) - 1; i >= 0 && len(out) < 160; i-- {
		n := cp()
		n.Cons = append(n.Cons[:i], n.Cons[i+1:]...)
		out = append(out, n)
	}
	for i, c := range sc.Closers {
		if c.Times > 1 {
			n := cp()
			n.Closers[i].Times = 1
			out = append(out, n)
		}
		if c.Delay > 0 {
			n := cp()
			n.Closers[i].Delay = c.Delay / 2
			out = append(out, n)
		}
	}
	for i, op := range sc.Prod {
		if op.N > 1 && len(out) < 220 {
			n := cp()
			n.Prod[i].N = op.N / 2
			n.Prod[i].Chunks = nil
			out = append(out, n)
		}
	}
	for i, op := range sc.Cons {
		if op.N > 1 && len(out) < 280 {
			n := cp()
			n.Cons[i].N = op.N / 2
			out = append(out, n)
		}
	}
	return out
}

var real = []string{"service.buffer (all methods, via VerifNewBuffer)"}
var stub = []string{"sync, sync/atomic (simulator models)", "io.Reader/io.Writer peers (scripted)"}
var assumptions = []string{
	"sync.Cond wake-up is FIFO and never spurious; Mutex hand-off may go to any waiter or barger (simulator models of Go's primitives)",
	"tasks switch only at sync/atomic operations and harness yield points; interleavings inside a region without any synchronisation operation are not explored (that is C18's business)",
	"one producer task and one consumer task, as the ring is used by the library",
}

func init() {
	world.Register(&world.Def{
		Prop: "C14", World: "ring", Gen: gen(false), NewScript: func() interface{} { return &Script{} }, Run: Run, Shrink: shrink,
		MustProbes: []string{"reserve_wrapped"},
		Rule:       "script = seeded sequence of producer ops (write, reserve+commit, fill from a chunked reader) and consumer ops (read, peek/wait+commit, drain to a writer), ring size 16-64 KiB (an eighth of the runs with a configured size that the library rounds up to it: below the 16 KiB minimum or not a power of two), chunk sizes 1..size/2, total 0..8 ring sizes; schedule = seeded random-walk / PCT over every sync, atomic and harness yield point. A run is non-trivial if bytes were produced and at least 3 task switches occurred; distinct = distinct hash of the (task, yield kind) sequence at switches.",
		Real:       real, Stub: stub, Level: "exploration", QuickRuns: 150000, ThoroughRuns: 20000000, Assumptions: assumptions,
	})
	world.Register(&world.Def{
		Prop: "C15", World: "ring", Gen: gen(true), NewScript: func() interface{} { return &Script{} }, Run: Run, Shrink: shrink,
		MustProbes: []string{"closed_by_director"},
		Rule:       "as C14 plus 0-3 closer tasks calling Close 1-3 times at scheduler-chosen moments, consumers that ask for more than is produced, chunk sizes up to the ring size in a quarter of the runs, and one more call of every kind after Close. Oracle is the exact parked-task predicate at quiescence. Non-trivial/distinct as for C14.",
		Real:       real, Stub: stub, Level: "exploration", QuickRuns: 150000, ThoroughRuns: 20000000, Assumptions: assumptions,
	})
}
