// Package world holds what all simulated worlds share: the property registry,
// violations, run outcomes and the generic shrinker.
package world

import (
	"encoding/json"
	"fmt"
	"sort"

	"verif/sim/simrt"
)

// Violation is one failed oracle.
type Violation struct {
	Prop      string `json:"prop"`
	Invariant string `json:"invariant"` // short stable name of the oracle that failed
	Sig       string `json:"sig"`       // normalised signature (known-findings key, shrink target)
	Detail    string `json:"detail"`
}

// Outcome of one simulated run.
type Outcome struct {
	Violations []Violation
	Res        *simrt.Result
	Nontrivial bool                   // the run reached at least one of the property's probes
	Summary    map[string]interface{} // small description for evidence samples
	Aborted    string                 // non-empty: run unusable (reason), neither pass nor violation
}

// Add appends a violation (de-duplicated by signature).
func (o *Outcome) Add(prop, inv, sig, detail string) {
	for _, v := range o.Violations {
		if v.Prop == prop && v.Sig == sig {
			return
		}
	}
	if len(detail) > 1500 {
		detail = detail[:1500] + "…"
	}
	o.Violations = append(o.Violations, Violation{prop, inv, sig, detail})
}

// Has reports whether a violation with the given property and signature exists.
func (o *Outcome) Has(prop, sig string) bool {
	for _, v := range o.Violations {
		if v.Prop == prop && v.Sig == sig {
			return true
		}
	}
	return false
}

// Def describes how one property is explored.
type Def struct {
	Prop  string
	World string
	// Gen builds the explicit script of run number idx from a seed.
	Gen func(tier string, seed uint64, idx int) interface{}
	// NewScript returns an empty script for JSON decoding.
	NewScript func() interface{}
	// Run executes a script.  Only violations of Def.Prop decide the check;
	// violations of other properties are counted as side observations.
	Run func(script interface{}, cfg simrt.Config) *Outcome
	// Shrink proposes smaller scripts.
	Shrink func(script interface{}) []interface{}
	// Probes that must not stay at zero in a thorough batch.
	MustProbes []string
	// Rule describes generation and non-triviality for the evidence file.
	Rule string
	// Components (real / stub) for the evidence file.
	Real, Stub []string
	// Level: exploration or fault_enumeration.
	Level string
	// Runs per tier (count based; wall-clock caps are applied by the driver).
	QuickRuns, ThoroughRuns int
	// Assumptions for the evidence file.
	Assumptions []string
	// Enumerate, if set, returns scripts that are run in addition to the
	// seeded ones (complete finite enumerations).
	Enumerate func(tier string) []interface{}
}

var registry = map[string]*Def{}

// Register adds a property definition.
func Register(d *Def) {
	if _, dup := registry[d.Prop]; dup {
		panic("duplicate property " + d.Prop)
	}
	registry[d.Prop] = d
}

// Replace overwrites a property definition.
func Replace(d *Def) { registry[d.Prop] = d }

// Lookup finds a property definition.
func Lookup(prop string) *Def { return registry[prop] }

// Props lists registered properties.
func Props() []string {
	var out []string
	for p := range registry {
		out = append(out, p)
	}
	sort.Strings(out)
	return out
}

// Clone deep-copies a script through JSON.
func Clone(d *Def, script interface{}) interface{} {
	b, err := json.Marshal(script)
	if err != nil {
		panic(err)
	}
	n := d.NewScript()
	if err := json.Unmarshal(b, n); err != nil {
		panic(err)
	}
	return n
}

// Replay is the on-disk replay file.
type Replay struct {
	Prop      string          `json:"property"`
	World     string          `json:"world"`
	Seed      uint64          `json:"seed"`
	Index     int             `json:"index"`
	Tier      string          `json:"tier"`
	Script    json.RawMessage `json:"script"`
	Trace     *simrt.Trace    `json:"trace"`
	Violation Violation       `json:"violation"`
	LogHash   string          `json:"log_hash"`
	Steps     int             `json:"steps"`
	Minimised bool            `json:"minimised"`
	Note      string          `json:"note,omitempty"`
	TreeHash  string          `json:"tree_hash,omitempty"`
}

// RunSeed derives the per-run seed.
func RunSeed(seed uint64, prop string, idx int) uint64 {
	h := uint64(1469598103934665603)
	for i := 0; i < len(prop); i++ {
		h = (h ^ uint64(prop[i])) * 1099511628211
	}
	return simrt.Mix(simrt.Mix(seed, h), uint64(idx))
}

// Shrinker minimises (script, trace) while the same violation signature persists.
type Shrinker struct {
	D      *Def
	Target Violation
	Tries  int
	Budget int
}

func (sh *Shrinker) fails(script interface{}, tr *simrt.Trace) (*Outcome, bool) {
	sh.Tries++
	o := sh.D.Run(script, simrt.Config{Replay: tr})
	if o.Has(sh.Target.Prop, sh.Target.Sig) {
		return o, true
	}
	return o, false
}

// Minimise returns the smallest failing (script, trace) it finds.
func (sh *Shrinker) Minimise(script interface{}, tr *simrt.Trace) (interface{}, *simrt.Trace, *Outcome) {
	best, bestTr := script, tr
	bestOut, ok := sh.fails(best, bestTr)
	if !ok {
		return script, tr, nil
	}
	// the trace actually consumed may be shorter than the given one
	t := bestOut.Res.Trace
	bestTr = &t
	progress := true
	for progress && sh.Tries < sh.Budget {
		progress = false
		// 1. structural
		if sh.D.Shrink != nil {
			for _, cand := range sh.D.Shrink(best) {
				if sh.Tries >= sh.Budget {
					break
				}
				if o, ok := sh.fails(cand, bestTr); ok {
					best, bestOut = cand, o
					t := o.Res.Trace
					bestTr = &t
					progress = true
					break
				}
			}
			if progress {
				continue
			}
		}
		// 2. schedule/fault stream: delete chunks of non-zero choices
		n := len(bestTr.Idx)
		for chunk := n; chunk >= 1 && sh.Tries < sh.Budget; chunk /= 2 {
			for start := 0; start+chunk <= len(bestTr.Idx) && sh.Tries < sh.Budget; {
				cand := &simrt.Trace{Len: bestTr.Len}
				cand.Idx = append(append([]int{}, bestTr.Idx[:start]...), bestTr.Idx[start+chunk:]...)
				cand.Val = append(append([]uint32{}, bestTr.Val[:start]...), bestTr.Val[start+chunk:]...)
				if o, ok := sh.fails(best, cand); ok {
					t := o.Res.Trace
					bestTr, bestOut = &t, o
					progress = true
				} else {
					start += chunk
				}
			}
			if chunk == 1 {
				break
			}
		}
		// 3. lower remaining choice values
		for i := 0; i < len(bestTr.Val) && sh.Tries < sh.Budget; i++ {
			if bestTr.Val[i] > 1 {
				cand := &simrt.Trace{Len: bestTr.Len, Idx: append([]int{}, bestTr.Idx...), Val: append([]uint32{}, bestTr.Val...)}
				cand.Val[i] = 1
				if o, ok := sh.fails(best, cand); ok {
					t := o.Res.Trace
					bestTr, bestOut = &t, o
					progress = true
				}
			}
		}
	}
	return best, bestTr, bestOut
}

// Fmt is a tiny helper for signatures.
func Fmt(format string, a ...interface{}) string { return fmt.Sprintf(format, a...) }
