// Package clientw simulates the real service.Client against a scripted server
// on the simulated transport (C20 connect results and callback dispatch, C12
// sender side completions, C02 receiver side in the client role).
package clientw

import (
	"fmt"
	"sort"
	"strings"
	"sync/atomic"

	"github.com/mdzio/go-mqtt/message"
	"github.com/mdzio/go-mqtt/service"

	"verif/sim/refmqtt"
	"verif/sim/simnet"
	"verif/sim/simrt"
	"verif/sim/world"
)

const peerAddr = "peer:1883"

// AOp is an operation of an application task.
type AOp struct {
	K       string   `json:"k"` // pub sub unsub ping barrier
	Topic   string   `json:"topic,omitempty"`
	QoS     byte     `json:"qos,omitempty"`
	Size    int      `json:"size,omitempty"`
	Filters []string `json:"filters,omitempty"`
	QoSs    []byte   `json:"qoss,omitempty"`
	CB      int      `json:"cb,omitempty"`
}

// SOp is a server-initiated action.
type SOp struct {
	K     string `json:"k"` // pub pubrel barrier
	Topic string `json:"topic,omitempty"`
	QoS   byte   `json:"qos,omitempty"`
	ID    uint16 `json:"id,omitempty"`
	Size  int    `json:"size,omitempty"`
	Seq   int    `json:"seq,omitempty"`
	Dup   bool   `json:"dup,omitempty"`
	NoRel bool   `json:"norel,omitempty"` // QoS 2: PUBREL only by an explicit pubrel op
}

// Script of a client-world run.
type Script struct {
	BufSize        int    `json:"buf"`
	LinkCap        int    `json:"linkcap"`
	PIDStart       uint64 `json:"pidstart"`
	ConnectTimeout int    `json:"cto,omitempty"`
	SegNum         int    `json:"segnum"`
	// CONNACK behaviour of the server
	ConnMode string `json:"connmode"` // ok code malformed silent close-before close-inside
	ConnCode byte   `json:"conncode,omitempty"`
	ConnSP   bool   `json:"connsp,omitempty"`
	// how the server acknowledges the client's requests
	AckPolicy string  `json:"ackpolicy"`          // immediate shuffle
	Withhold  int     `json:"withhold,omitempty"` // every n-th acknowledgement is held back until the end
	DupAcks   int     `json:"dupacks,omitempty"`  // every n-th final acknowledgement is followed by a repeat of an earlier one
	Apps      [][]AOp `json:"apps"`
	Srv       []SOp   `json:"srv,omitempty"`
	Profile   string  `json:"profile"`
	// second life: drop-ok drop-code disc-ok disc-code ("" = none): the first
	// connection ends by a server-side close or by Disconnect, then Connect is
	// called again with the same client identifier and the server answers
	// CONNACK 0 or ReCode
	Reconnect string `json:"reconnect,omitempty"`
	ReCode    byte   `json:"recode,omitempty"`
	ReNew     bool   `json:"renew,omitempty"` // a new Client value instead of the old one
}

// WirePkt is a packet on the wire with stamps.
type WirePkt struct {
	P           *refmqtt.Packet
	First, Last int64
}

// request issued by an application task through the client API
type request struct {
	idx        int
	app        int
	op         AOp
	call, ret  int64
	err        string
	completes  []completion
	payload    []byte
	insideCall bool // a completion happened before the API call returned
}

type completion struct {
	stamp   int64
	err     string
	ackType byte
	ackID   uint16
	msgID   uint16
	during  bool
}

type cbEvent struct {
	cb      int
	req     int // request whose Subscribe registered this callback
	topic   string
	payload []byte
	qos     byte
	stamp   int64
}

type pendingAck struct {
	b    []byte
	held bool
}

type run struct {
	s    *simrt.Sim
	sc   *Script
	out  *world.Outcome
	cl   *service.Client
	conn *simnet.Conn // server side endpoint

	up, down                []*WirePkt // client->server, server->client
	upS, downS              refmqtt.Stream
	upF, downF              int64
	upErr                   error
	reqs                    []*request
	cbs                     []cbEvent
	connectErr              error
	connectRet              int64
	connectCall             int64
	connected               bool
	connDone                simrt.Event
	finish                  bool
	pending                 []pendingAck
	sentFinal               [][]byte // final acknowledgements sent so far
	srvShut                 bool     // the server has shut down its sending direction
	pendingPulse            simrt.Pulse
	nAcks                   int
	appState                []int // 0 running 1 barrier 2 finished
	appBarrier              []simrt.Pulse
	srvState                int
	srvBarrier              simrt.Pulse
	changed                 simrt.Pulse
	recvd                   []*refmqtt.Packet
	serverDead              bool
	libLeftAfterConnectFail []simrt.TaskInfo
	libLeftAtEnd            []simrt.TaskInfo
	clientClosed            bool
	quiesce                 []int64
	noRel                   map[uint16]bool
	clientID                string
	ackerStop               bool
	finalStamp              int64
	disconnected            bool
	sending                 bool
	sendWait                []*simrt.Task
	raceInRun               map[byte]bool
	// second life
	reDone, reStarted bool
	reErr             error
	conn2             *simnet.Conn
	libLeftAfterRe    []simrt.TaskInfo
	reClientClosed    bool
}

var runCounter uint64

// panicClass normalises a panic message into a signature: first line, no
// digits (client identifiers, addresses), words joined by '-'.
func panicClass(msg string) string {
	msg = strings.Split(msg, "\n")[0]
	var b strings.Builder
	for _, ch := range msg {
		if ch >= '0' && ch <= '9' {
			continue
		}
		b.WriteRune(ch)
	}
	out := strings.Join(strings.Fields(b.String()), "-")
	if len(out) > 70 {
		out = out[:70]
	}
	return out
}

func payload(src, seq, size int) []byte {
	if size < 8 {
		size = 8
	}
	p := make([]byte, size)
	p[0], p[1], p[2], p[3] = 0xC7, byte(src), byte(seq>>8), byte(seq)
	p[4], p[5], p[6], p[7] = byte(size>>24), byte(size>>16), byte(size>>8), byte(size)
	x := uint32(src)*2654435761 + uint32(seq)*40503 + 99
	for i := 8; i < size; i++ {
		x = x*1664525 + 1013904223
		p[i] = byte(x >> 24)
	}
	return p
}

func identify(p []byte) (src, seq int, ok bool) {
	if len(p) < 8 || p[0] != 0xC7 {
		return 0, 0, false
	}
	src, seq = int(p[1]), int(p[2])<<8|int(p[3])
	size := int(p[4])<<24 | int(p[5])<<16 | int(p[6])<<8 | int(p[7])
	if size != len(p) {
		return src, seq, false
	}
	want := payload(src, seq, size)
	for i := range p {
		if p[i] != want[i] {
			return src, seq, false
		}
	}
	return src, seq, true
}

func (r *run) viol(prop, inv, sig, format string, a ...interface{}) {
	r.out.Add(prop, inv, sig, fmt.Sprintf(format, a...))
}

func (r *run) tap(up bool) func(b []byte) {
	return func(b []byte) {
		s := r.s
		st := s.Stamp()
		stream, first, list := &r.downS, &r.downF, &r.down
		if up {
			stream, first, list = &r.upS, &r.upF, &r.up
		}
		if stream.Pending() == 0 {
			*first = st
		}
		for _, p := range stream.Feed(b) {
			w := &WirePkt{P: p, First: *first, Last: s.Stamp()}
			*list = append(*list, w)
			*first = w.Last
			if s.Verbose() {
				d := "<-"
				if up {
					d = "->"
				}
				s.Logf("wire %s %s [%d,%d]", d, p, w.First, w.Last)
			}
			s.Event("wire", b2i(up), int64(p.Type)<<16|int64(p.ID))
		}
		if up && stream.Err != nil && r.upErr == nil {
			r.upErr = stream.Err
		}
	}
}

func b2i(b bool) int64 {
	if b {
		return 1
	}
	return 0
}

// serverSend writes a packet to the client.
func (r *run) serverSend(b []byte) {
	if r.conn == nil || r.conn.Closed() || r.srvShut {
		return
	}
	// several harness tasks write to the client: one packet at a time
	s := r.s
	for r.sending {
		r.sendWait = append(r.sendWait, s.Current())
		s.Block(simrt.WHarness, r, "sendlock")
	}
	r.sending = true
	r.conn.Write(b)
	r.sending = false
	for _, t := range r.sendWait {
		s.Wake(t)
	}
	r.sendWait = nil
}

// server accepts the connection, answers the CONNECT as scripted and then
// reads and acknowledges the client's packets.
func (r *run) server(l *simnet.Listener) {
	s := r.s
	nc, err := l.Accept()
	if err != nil {
		return
	}
	c := nc.(*simnet.Conn)
	r.conn = c
	c.SetCaps(r.sc.LinkCap, r.sc.LinkCap)
	c.TapIn(r.tap(true))
	c.TapOut(r.tap(false))
	var rd refmqtt.Stream
	buf := make([]byte, 4096)
	sentConnack := false
	for {
		n, err := c.Read(buf)
		if n > 0 {
			for _, p := range rd.Feed(buf[:n]) {
				r.recvd = append(r.recvd, p)
				if p.Type == refmqtt.CONNECT && !sentConnack {
					sentConnack = true
					switch r.sc.ConnMode {
					case "ok":
						r.serverSend(refmqtt.Encode(&refmqtt.Packet{Type: refmqtt.CONNACK, Code: 0, SessionPresent: r.sc.ConnSP}))
					case "code":
						r.serverSend(refmqtt.Encode(&refmqtt.Packet{Type: refmqtt.CONNACK, Code: r.sc.ConnCode}))
					case "malformed":
						r.serverSend([]byte{0x20, 0x02, 0x06, 0x09})
					case "close-before":
						c.Close()
					case "close-inside":
						r.serverSend([]byte{0x20, 0x02, 0x00})
						c.Close()
					case "silent":
					}
					continue
				}
				r.handle(p)
			}
			r.changed.Signal(s)
		}
		if err != nil || rd.Err != nil {
			r.serverDead = true
			r.changed.Signal(s)
			return
		}
	}
}

func (r *run) handle(p *refmqtt.Packet) {
	var ack *refmqtt.Packet
	switch p.Type {
	case refmqtt.PUBLISH:
		if p.QoS == 1 {
			ack = &refmqtt.Packet{Type: refmqtt.PUBACK, ID: p.ID}
		} else if p.QoS == 2 {
			ack = &refmqtt.Packet{Type: refmqtt.PUBREC, ID: p.ID}
		}
	case refmqtt.PUBREL:
		ack = &refmqtt.Packet{Type: refmqtt.PUBCOMP, ID: p.ID}
	case refmqtt.SUBSCRIBE:
		codes := make([]byte, len(p.Filters))
		for i, f := range p.Filters {
			codes[i] = p.QoSs[i]
			if strings.Contains(f, "deny") {
				codes[i] = 0x80
			}
		}
		ack = &refmqtt.Packet{Type: refmqtt.SUBACK, ID: p.ID, QoSs: codes}
	case refmqtt.UNSUBSCRIBE:
		ack = &refmqtt.Packet{Type: refmqtt.UNSUBACK, ID: p.ID}
	case refmqtt.PINGREQ:
		ack = &refmqtt.Packet{Type: refmqtt.PINGRESP}
	case refmqtt.PUBREC:
		// the client acknowledged a QoS 2 delivery: release it unless scripted otherwise
		if !r.noRel[p.ID] {
			ack = &refmqtt.Packet{Type: refmqtt.PUBREL, ID: p.ID}
		}
	}
	if ack == nil {
		return
	}
	b := refmqtt.Encode(ack)
	r.nAcks++
	held := r.sc.Withhold > 0 && r.nAcks%r.sc.Withhold == 0 && ack.Type != refmqtt.PUBREL
	if ack.Type == refmqtt.PUBREL {
		// a sender releases its QoS 2 exchanges in order (MQTT-4.6.0-3)
		r.serverSend(b)
		return
	}
	if r.sc.AckPolicy == "immediate" && !held {
		r.serverSend(b)
		r.repeatOldAck(b)
		return
	}
	r.pending = append(r.pending, pendingAck{b, held})
	r.pendingPulse.Signal(r.s)
}

// acker releases pending acknowledgements in an order and at moments chosen by
// the choice stream.
func (r *run) acker() {
	s := r.s
	for {
		var cand []int
		for i, p := range r.pending {
			if !p.held || r.finish {
				cand = append(cand, i)
			}
		}
		if len(cand) == 0 {
			if r.finish && len(r.pending) == 0 && r.ackerStop {
				return
			}
			if r.ackerStop && len(r.pending) == 0 {
				return
			}
			r.pendingPulse.Wait(s)
			if r.ackerStop && len(r.pending) == 0 {
				return
			}
			continue
		}
		for i := s.Choose(4); i > 0; i-- {
			s.Yield(simrt.YHarness)
		}
		i := cand[s.Choose(len(cand))]
		b := r.pending[i].b
		r.pending = append(r.pending[:i], r.pending[i+1:]...)
		r.serverSend(b)
		r.repeatOldAck(b)
	}
}

// repeatOldAck notes a final acknowledgement that was just sent and, every
// DupAcks-th time, sends a byte-identical repeat of an earlier one (a peer may
// repeat acknowledgements; the request they belong to is long complete).
func (r *run) repeatOldAck(b []byte) {
	switch b[0] >> 4 {
	case refmqtt.PUBACK, refmqtt.PUBCOMP, refmqtt.SUBACK, refmqtt.UNSUBACK:
	default:
		return
	}
	r.sentFinal = append(r.sentFinal, b)
	if r.sc.DupAcks <= 0 || len(r.sentFinal)%r.sc.DupAcks != 0 || len(r.sentFinal) < 2 || r.finish {
		return
	}
	old := r.sentFinal[r.s.Choose(len(r.sentFinal)-1)]
	r.s.Fault("repeated_acknowledgement")
	r.serverSend(old)
}

func (r *run) serverOps() {
	s := r.s
	defer func() { r.srvState = 2 }()
	r.connDone.Wait(s)
	if !r.connected {
		return
	}
	for _, op := range r.sc.Srv {
		if r.finish {
			return
		}
		s.Yield(simrt.YHarness)
		switch op.K {
		case "barrier":
			r.srvState = 1
			r.srvBarrier.Wait(s)
			r.srvState = 0
		case "pub":
			p := &refmqtt.Packet{Type: refmqtt.PUBLISH, Topic: op.Topic, QoS: op.QoS, ID: op.ID, Dup: op.Dup, Payload: payload(200, op.Seq, op.Size)}
			if op.NoRel {
				r.noRel[op.ID] = true
			} else {
				delete(r.noRel, op.ID)
			}
			r.serverSend(refmqtt.Encode(p))
		case "pubrel":
			delete(r.noRel, op.ID)
			r.serverSend(refmqtt.Encode(&refmqtt.Packet{Type: refmqtt.PUBREL, ID: op.ID}))
		case "shutwr":
			// half-close: the client reads everything sent so far, then EOF;
			// the server keeps reading the client's acknowledgements
			if r.conn != nil && !r.conn.Closed() {
				r.srvShut = true
				r.conn.CloseWrite()
			}
		}
	}
}

func (r *run) app(ai int) {
	s := r.s
	defer func() { r.appState[ai] = 2 }()
	if ai == 0 {
		cm := message.NewConnectMessage()
		cm.SetClientID([]byte(r.clientID))
		cm.SetVersion(4)
		cm.SetCleanSession(true)
		cm.SetKeepAlive(600)
		r.connectCall = s.Stamp()
		err := r.cl.Connect("tcp://"+peerAddr, cm)
		r.connectRet = s.Stamp()
		r.connectErr = err
		r.connected = err == nil
		r.connDone.Set(s)
	} else {
		r.connDone.Wait(s)
	}
	if !r.connected {
		return
	}
	for _, op := range r.sc.Apps[ai] {
		if r.finish {
			return
		}
		s.Yield(simrt.YHarness)
		if op.K == "barrier" {
			r.appState[ai] = 1
			r.appBarrier[ai].Wait(s)
			r.appState[ai] = 0
			continue
		}
		rq := &request{idx: len(r.reqs), app: ai, op: op}
		r.reqs = append(r.reqs, rq)
		inCall := true
		onComplete := func(msg, ack message.Message, err error) error {
			c := completion{stamp: s.Stamp(), during: inCall}
			if err != nil {
				c.err = err.Error()
			}
			if ack != nil {
				c.ackType = byte(ack.Type())
				c.ackID = ack.PacketID()
			}
			if msg != nil {
				c.msgID = msg.PacketID()
			}
			rq.completes = append(rq.completes, c)
			s.Event("complete", int64(rq.idx), int64(c.ackType))
			s.Yield(simrt.YHarness)
			return nil
		}
		var err error
		rq.call = s.Stamp()
		switch op.K {
		case "pub":
			m := message.NewPublishMessage()
			m.SetTopic([]byte(op.Topic))
			m.SetQoS(op.QoS)
			rq.payload = payload(ai, rq.idx, op.Size)
			m.SetPayload(append([]byte{}, rq.payload...))
			err = r.cl.Publish(m, onComplete)
		case "sub":
			m := message.NewSubscribeMessage()
			for i, f := range op.Filters {
				m.AddTopic([]byte(f), op.QoSs[i])
			}
			cb := op.CB
			req := rq.idx
			err = r.cl.Subscribe(m, onComplete, func(pm *message.PublishMessage) error {
				r.cbs = append(r.cbs, cbEvent{cb: cb, req: req, topic: string(pm.Topic()), payload: append([]byte{}, pm.Payload()...), qos: pm.QoS(), stamp: s.Stamp()})
				s.Event("cb", int64(cb), int64(len(pm.Payload())))
				s.Yield(simrt.YHarness)
				return nil
			})
		case "unsub":
			m := message.NewUnsubscribeMessage()
			for _, f := range op.Filters {
				m.AddTopic([]byte(f))
			}
			err = r.cl.Unsubscribe(m, onComplete)
		case "ping":
			err = r.cl.Ping(onComplete)
		}
		inCall = false
		rq.ret = s.Stamp()
		if err != nil {
			rq.err = err.Error()
		}
	}
}

// Run executes a client-world script.
func Run(script interface{}, cfg simrt.Config) *world.Outcome {
	sc := script.(*Script)
	out := &world.Outcome{Summary: map[string]interface{}{}}
	if cfg.MaxSteps == 0 {
		cfg.MaxSteps = 1000000
	}
	service.VerifResetCounters()
	message.VerifSetPacketIDCounter(sc.PIDStart)
	r := &run{sc: sc, out: out, noRel: map[uint16]bool{}}
	r.clientID = fmt.Sprintf("vc%09d", atomic.AddUint64(&runCounter, 1)) // fixed width: the CONNECT has the same length in every execution
	res := simrt.Run(cfg, nil, func(s *simrt.Sim) {
		r.s = s
		r.director()
	})
	out.Res = res
	switch res.Status {
	case simrt.StatusCrash:
		out.Add("C20", "no-panic", "C20/panic/"+panicClass(res.CrashMsg), "a panic reached the top of a goroutine in the client: "+res.CrashMsg+"\n"+res.CrashStack)
		return out
	case simrt.StatusBudget:
		out.Aborted = "step budget"
		return out
	case simrt.StatusHang:
		out.Aborted = "director hang"
		return out
	}
	r.judge()
	return out
}

func (r *run) director() {
	s := r.s
	sc := r.sc
	net := simnet.Get(s)
	net.DefaultCap = sc.LinkCap
	net.SegmentNum, net.SegmentDen = sc.SegNum, 4
	l, err := simnet.Listen(s, "tcp", peerAddr)
	if err != nil {
		r.out.Aborted = err.Error()
		return
	}
	r.cl = &service.Client{BufferSize: int64(sc.BufSize), ConnectTimeout: sc.ConnectTimeout}
	s.Go("server", false, func() { r.server(l) })
	s.Go("acker", false, r.acker)
	s.Go("server-ops", false, r.serverOps)
	n := len(sc.Apps)
	if n == 0 {
		n = 1
		sc.Apps = [][]AOp{nil}
	}
	r.appState = make([]int, n)
	r.appBarrier = make([]simrt.Pulse, n)
	for i := 0; i < n; i++ {
		i := i
		s.Go(fmt.Sprintf("app%d", i), false, func() { r.app(i) })
	}
	for {
		s.Quiesce()
		r.quiesce = append(r.quiesce, s.Stamp())
		if !r.connDone.IsSet() {
			// Connect is waiting for the CONNACK: let the connect timeout pass
			if !s.SleepToNextTimer() {
				break
			}
			continue
		}
		atB := 0
		for i := range r.appState {
			if r.appState[i] == 1 {
				atB++
			}
		}
		if r.srvState == 1 {
			atB++
		}
		if atB == 0 {
			break
		}
		for i := range r.appState {
			if r.appState[i] == 1 {
				r.appBarrier[i].Signal(s)
			}
		}
		if r.srvState == 1 {
			r.srvBarrier.Signal(s)
		}
	}
	if !r.connected {
		r.libLeftAfterConnectFail = s.LibTasksAlive()
		if r.conn != nil {
			r.clientClosed = r.conn.PeerClosed()
		}
	}
	// final phase: release every withheld acknowledgement, drain
	r.finish = true
	r.pendingPulse.Signal(s)
	for i := range r.appBarrier {
		r.appBarrier[i].Signal(s)
	}
	r.srvBarrier.Signal(s)
	s.Quiesce()
	r.quiesce = append(r.quiesce, s.Stamp())
	r.finalStamp = s.Stamp()
	if r.connected && strings.HasPrefix(sc.Reconnect, "drop") {
		// the server drops the connection; the application does not call
		// Disconnect on the dead client
		s.Fault("server_drop")
		r.ackerStop = true
		r.pendingPulse.Signal(s)
		r.conn.Close()
		s.Quiesce()
	} else if r.connected {
		s.Go("disconnect", false, func() { r.cl.Disconnect(); r.disconnected = true })
		s.Quiesce()
	}
	r.ackerStop = true
	r.pendingPulse.Signal(s)
	if r.conn != nil && !r.conn.Closed() {
		r.conn.Close()
	}
	if r.connected && sc.Reconnect != "" {
		s.Quiesce()
		r.secondLife(l)
	}
	l.Close()
	s.Quiesce()
	r.libLeftAtEnd = s.LibTasksAlive()
}

// secondLife: Connect again under the same client identifier.
func (r *run) secondLife(l *simnet.Listener) {
	s := r.s
	sc := r.sc
	wantOK := strings.HasSuffix(sc.Reconnect, "-ok")
	r.reStarted = true
	s.Go("server2", false, func() {
		nc, err := l.Accept()
		if err != nil {
			return
		}
		c := nc.(*simnet.Conn)
		r.conn2 = c
		var rd refmqtt.Stream
		buf := make([]byte, 4096)
		sent := false
		for {
			n, err := c.Read(buf)
			if n > 0 {
				for _, p := range rd.Feed(buf[:n]) {
					switch {
					case p.Type == refmqtt.CONNECT && !sent:
						sent = true
						code := byte(0)
						if !wantOK {
							code = sc.ReCode
						}
						c.Write(refmqtt.Encode(&refmqtt.Packet{Type: refmqtt.CONNACK, Code: code}))
						if !wantOK {
							c.Close()
							return
						}
					case p.Type == refmqtt.PINGREQ:
						c.Write(refmqtt.Encode(&refmqtt.Packet{Type: refmqtt.PINGRESP}))
					}
				}
			}
			if err != nil || rd.Err != nil {
				return
			}
		}
	})
	cl := r.cl
	if sc.ReNew {
		cl = &service.Client{BufferSize: int64(sc.BufSize), ConnectTimeout: sc.ConnectTimeout}
	}
	s.Go("app-reconnect", false, func() {
		cm := message.NewConnectMessage()
		cm.SetClientID([]byte(r.clientID))
		cm.SetVersion(4)
		cm.SetCleanSession(true)
		cm.SetKeepAlive(600)
		r.reErr = cl.Connect("tcp://"+peerAddr, cm)
		r.reDone = true
	})
	for i := 0; i < 64; i++ {
		s.Quiesce()
		if r.reDone || !s.SleepToNextTimer() {
			break
		}
	}
	if !r.reDone {
		return
	}
	if r.reErr != nil {
		r.libLeftAfterRe = s.LibTasksAlive()
		if r.conn2 != nil {
			r.reClientClosed = r.conn2.PeerClosed()
		}
	} else {
		s.Go("disconnect2", false, func() { cl.Disconnect() })
		s.Quiesce()
	}
	if r.conn2 != nil && !r.conn2.Closed() {
		r.conn2.Close()
	}
}

// ---------------------------------------------------------------- oracles

func (r *run) judge() {
	sc := r.sc
	out := r.out
	out.Summary["profile"] = sc.Profile
	out.Summary["connmode"] = sc.ConnMode
	out.Summary["requests"] = len(r.reqs)
	out.Summary["callbacks"] = len(r.cbs)
	out.Summary["client_packets"] = len(r.up)
	out.Summary["server_packets"] = len(r.down)
	out.Nontrivial = len(r.reqs) > 0 || sc.ConnMode != "ok"
	r.judgeConnect()
	if !r.connected {
		return
	}
	if r.upErr != nil {
		r.viol("C17", "strict-parse", "C17/client-malformed-output", "the client wrote bytes that are not well-formed MQTT packets: %v", r.upErr)
	}
	r.judgeCompletions()
	r.judgeDispatch()
	r.judgeReceiver()
	if len(r.libLeftAtEnd) > 0 {
		r.viol("C20", "no-goroutines-left", "C20/goroutines-after-disconnect", "after Disconnect and the end of the connection %d library goroutine(s) remain: %s", len(r.libLeftAtEnd), simrt.FormatTasks(r.libLeftAtEnd))
	}
}

func (r *run) judgeConnect() {
	sc := r.sc
	want := sc.ConnMode == "ok"
	if (r.connectErr == nil) != want {
		r.viol("C20", "connect-result", fmt.Sprintf("C20/connect-result/%s-code%d", sc.ConnMode, sc.ConnCode), "Client.Connect returned %v although the server answered %s (code %d)", r.connectErr, sc.ConnMode, sc.ConnCode)
		return
	}
	if sc.ConnMode == "code" && sc.ConnCode != 0 {
		cc, ok := r.connectErr.(message.ConnackCode)
		if !ok || byte(cc) != sc.ConnCode {
			r.viol("C20", "connect-error-is-code", fmt.Sprintf("C20/connect-error/code%d", sc.ConnCode), "Client.Connect returned error %v (%T) for CONNACK return code %d; the error must be that refusal code", r.connectErr, r.connectErr, sc.ConnCode)
		}
	}
	if r.reStarted {
		wantOK := strings.HasSuffix(sc.Reconnect, "-ok")
		how := map[bool]string{true: "the server had dropped the first connection (no Disconnect call)", false: "Disconnect"}[strings.HasPrefix(sc.Reconnect, "drop")]
		switch {
		case !r.reDone:
			r.viol("C20", "connect-result", "C20/reconnect-hangs/"+sc.Reconnect, "the second Client.Connect with the same client identifier (after %s) did not return although the server answered", how)
		case (r.reErr == nil) != wantOK:
			r.viol("C20", "connect-result", "C20/reconnect-result/"+sc.Reconnect, "the second Client.Connect with the same client identifier (after %s) returned %v although the server answered with CONNACK code %d", how, r.reErr, map[bool]byte{true: 0, false: sc.ReCode}[wantOK])
		case r.reErr != nil:
			if cc, ok := r.reErr.(message.ConnackCode); !ok || byte(cc) != sc.ReCode {
				r.viol("C20", "connect-error-is-code", fmt.Sprintf("C20/reconnect-error/code%d", sc.ReCode), "the second Client.Connect returned error %v (%T) for CONNACK return code %d", r.reErr, r.reErr, sc.ReCode)
			}
			if len(r.libLeftAfterRe) > 0 {
				r.viol("C20", "no-goroutines-left", "C20/goroutines-after-failed-reconnect/"+sc.Reconnect, "the second Client.Connect failed (%v) but %d library goroutine(s) are alive afterwards: %s", r.reErr, len(r.libLeftAfterRe), simrt.FormatTasks(r.libLeftAfterRe))
			}
			if r.conn2 != nil && !r.reClientClosed && !r.conn2.Closed() {
				r.viol("C20", "connection-closed", "C20/connection-open-after-failed-reconnect", "the second Client.Connect failed (%v) but the client did not close the connection", r.reErr)
			}
		}
	}
	if r.connectErr != nil {
		if len(r.libLeftAfterConnectFail) > 0 {
			r.viol("C20", "no-goroutines-left", "C20/goroutines-after-failed-connect/"+sc.ConnMode, "Client.Connect failed (%v) but left %d goroutine(s) behind: %s", r.connectErr, len(r.libLeftAfterConnectFail), simrt.FormatTasks(r.libLeftAfterConnectFail))
		}
		if r.conn != nil && !r.clientClosed && !r.conn.Closed() {
			r.viol("C20", "connection-closed", "C20/connection-open-after-failed-connect/"+sc.ConnMode, "Client.Connect failed (%v) but the client did not close the connection", r.connectErr)
		}
	}
}

func terminalFor(op AOp) byte {
	switch op.K {
	case "pub":
		if op.QoS == 1 {
			return refmqtt.PUBACK
		}
		if op.QoS == 2 {
			return refmqtt.PUBCOMP
		}
		return 0
	case "sub":
		return refmqtt.SUBACK
	case "unsub":
		return refmqtt.UNSUBACK
	case "ping":
		return refmqtt.PINGRESP
	}
	return 0
}

func reqType(op AOp) byte {
	switch op.K {
	case "pub":
		return refmqtt.PUBLISH
	case "sub":
		return refmqtt.SUBSCRIBE
	case "unsub":
		return refmqtt.UNSUBSCRIBE
	}
	return refmqtt.PINGREQ
}

// judgeCompletions: C12 (client role).
func (r *run) judgeCompletions() {
	// map requests to their packets on the wire: by payload for publishes,
	// by filter list for (un)subscribe, in order for pings
	used := map[*WirePkt]bool{}
	find := func(rq *request) *WirePkt {
		for _, w := range r.up {
			if used[w] || w.P.Type != reqType(rq.op) {
				continue
			}
			switch rq.op.K {
			case "pub":
				if string(w.P.Payload) != string(rq.payload) {
					continue
				}
			case "sub", "unsub":
				if strings.Join(w.P.Filters, "\x00") != strings.Join(rq.op.Filters, "\x00") || w.First < rq.call {
					continue
				}
			case "ping":
				if w.First < rq.call {
					continue
				}
			}
			used[w] = true
			return w
		}
		return nil
	}
	type kindKey struct{ t byte }
	var ordered []*request
	ordered = append(ordered, r.reqs...)
	sort.SliceStable(ordered, func(i, j int) bool { return ordered[i].call < ordered[j].call })
	wireOf := map[*request]*WirePkt{}
	for _, rq := range ordered {
		if rq.err != "" {
			continue
		}
		wireOf[rq] = find(rq)
	}
	// acknowledgement arrival (last byte on the wire towards the client)
	ackOf := func(w *WirePkt, t byte) *WirePkt {
		for _, d := range r.down {
			if d.P.Type == t && d.First > w.First && (t == refmqtt.PINGRESP || d.P.ID == w.P.ID) && (!used[d] || t == refmqtt.PINGRESP) {
				used[d] = true
				return d
			}
		}
		return nil
	}
	// in-flight identifiers of client-sent PUBLISH packets
	inflight := map[uint16]bool{}
	type ev struct {
		stamp int64
		w     *WirePkt
		up    bool
	}
	var evs []ev
	for _, w := range r.up {
		if w.P.Type == refmqtt.PUBLISH && w.P.QoS > 0 && !w.P.Dup {
			evs = append(evs, ev{w.First, w, true})
		}
	}
	for _, d := range r.down {
		if d.P.Type == refmqtt.PUBACK || d.P.Type == refmqtt.PUBCOMP {
			evs = append(evs, ev{d.Last, d, false})
		}
	}
	sort.SliceStable(evs, func(i, j int) bool { return evs[i].stamp < evs[j].stamp })
	for _, e := range evs {
		if e.up {
			if inflight[e.w.P.ID] {
				r.viol("C12", "distinct-ids-in-flight", "C12/client-duplicate-id-in-flight", "the client sent %s while an earlier PUBLISH with the same identifier was unacknowledged", e.w.P)
				break
			}
			inflight[e.w.P.ID] = true
		} else {
			delete(inflight, e.w.P.ID)
		}
	}
	// every PUBREC is answered by PUBREL with the same identifier
	nrec, nrel := map[uint16]int{}, map[uint16]int{}
	for _, d := range r.down {
		if d.P.Type == refmqtt.PUBREC {
			nrec[d.P.ID]++
		}
	}
	for _, w := range r.up {
		if w.P.Type == refmqtt.PUBREL {
			nrel[w.P.ID]++
		}
	}
	if !r.serverDead || r.disconnected {
		for id, n := range nrec {
			if nrel[id] != n {
				r.viol("C12", "pubrel-follows-pubrec", "C12/client-pubrel-count", "the server sent %d PUBREC with identifier %d and the client answered with %d PUBREL", n, id, nrel[id])
				break
			}
		}
	}
	// completion: exactly once, not before the terminal acknowledgement, and at
	// the latest once it and all earlier acknowledgements of that kind arrived
	// ("earlier" by the order of the requests on the wire)
	sort.SliceStable(ordered, func(i, j int) bool {
		wi, wj := wireOf[ordered[i]], wireOf[ordered[j]]
		if wi == nil || wj == nil {
			return wi != nil && wj == nil
		}
		return wi.First < wj.First
	})
	earlierMissing := map[byte]bool{}
	// did any acknowledgement of a kind reach the wire before the call that
	// sent the request had returned?  (the request is registered for its
	// acknowledgement only after it was written: an acknowledgement processed
	// in between is lost, and the queue behind that request never drains)
	raceInRun := map[byte]bool{}
	for _, rq := range ordered {
		w := wireOf[rq]
		if w == nil || rq.err != "" {
			continue
		}
		for _, d := range r.down {
			if d.First > w.First && d.Last < rq.ret && (d.P.Type == refmqtt.PINGRESP && rq.op.K == "ping" || (d.P.ID == w.P.ID && d.P.ID != 0 && (d.P.Type == terminalFor(rq.op) || d.P.Type == refmqtt.PUBREC && rq.op.QoS == 2))) {
				raceInRun[terminalFor(rq.op)] = true
			}
		}
	}
	r.raceInRun = raceInRun
	for _, rq := range ordered {
		if rq.err != "" {
			if len(rq.completes) > 0 {
				r.viol("C12", "completion-once", "C12/completion-after-error/"+rq.op.K, "%s call %d returned error %q and its completion callback was invoked as well", rq.op.K, rq.idx, rq.err)
			}
			continue
		}
		term := terminalFor(rq.op)
		name := fmt.Sprintf("%s request %d (QoS %d)", rq.op.K, rq.idx, rq.op.QoS)
		if len(rq.completes) > 1 {
			r.viol("C12", "completion-once", fmt.Sprintf("C12/completed-%d-times/%s", len(rq.completes), rq.op.K), "%s: the completion callback was invoked %d times", name, len(rq.completes))
			continue
		}
		if term == 0 {
			// QoS 0: completes as soon as it is queued, i.e. inside Publish
			if len(rq.completes) != 1 || !rq.completes[0].during {
				r.viol("C12", "qos0-completes-at-once", "C12/qos0-completion", "%s: QoS 0 publish completed %d time(s), inside the call: %v", name, len(rq.completes), len(rq.completes) == 1 && rq.completes[0].during)
			}
			continue
		}
		w := wireOf[rq]
		if w == nil {
			r.viol("C12", "request-sent", "C12/request-not-on-wire/"+rq.op.K, "%s returned without error but the packet never appeared on the wire", name)
			continue
		}
		if (rq.op.K == "pub" || rq.op.K == "sub" || rq.op.K == "unsub") && w.P.ID == 0 {
			r.viol("C12", "nonzero-id", "C12/client-zero-id", "%s was sent with packet identifier 0", name)
		}
		var ack *WirePkt
		if rq.op.K == "pub" && rq.op.QoS == 2 {
			// PUBREC, then our PUBREL, then PUBCOMP
			ack = ackOf(w, refmqtt.PUBCOMP)
		} else {
			ack = ackOf(w, term)
		}
		if len(rq.completes) == 1 {
			c := rq.completes[0]
			if ack == nil || c.stamp < ack.Last {
				when := "never sent"
				if ack != nil {
					when = fmt.Sprintf("on the wire at stamp %d", ack.Last)
				}
				r.viol("C12", "not-before-terminal-ack", "C12/completed-before-ack/"+rq.op.K+fmt.Sprint(rq.op.QoS), "%s completed at stamp %d but its terminal acknowledgement %s was %s", name, c.stamp, refmqtt.TypeName(term), when)
			}
			continue
		}
		// not completed
		if ack == nil {
			earlierMissing[term] = true
			continue
		}
		if earlierMissing[term] {
			continue // an earlier request of the same kind is still unacknowledged
		}
		if ack.Last > r.finalStamp {
			continue
		}
		earlierMissing[term] = true // requests queued behind this one cannot complete either
		r.viol("C12", "completes-after-ack", "C12/never-completed/"+rq.op.K+fmt.Sprint(rq.op.QoS)+r.raceTag(rq, ack), "%s never completed although its terminal acknowledgement %s (stamp %d) and those of all earlier requests of the kind had arrived by the end; the sending call returned at stamp %d", name, refmqtt.TypeName(term), ack.Last, rq.ret)
	}
}

// raceTag marks the case where the acknowledgement was on the wire before the
// sending call had returned (the registration race).
func (r *run) raceTag(rq *request, ack *WirePkt) string {
	if ack.Last < rq.ret || r.raceInRun[terminalFor(rq.op)] {
		return "/ack-before-call-returned"
	}
	return ""
}

type subWindow struct {
	req       *request
	filters   []string
	granted   []bool
	from      int64            // completion of the Subscribe
	until     map[string]int64 // per filter: start of the Unsubscribe call that names it (certain end)
	gone      map[string]int64 // per filter: completion of that Unsubscribe (possible end)
	neverGone map[string]bool
}

// judgeDispatch: C20 callback dispatch.
func (r *run) judgeDispatch() {
	var wins []*subWindow
	for _, rq := range r.reqs {
		if rq.op.K != "sub" || len(rq.completes) != 1 || rq.completes[0].err != "" {
			continue
		}
		w := &subWindow{req: rq, filters: rq.op.Filters, from: rq.completes[0].stamp, until: map[string]int64{}, gone: map[string]int64{}, neverGone: map[string]bool{}}
		// granted codes: the server denies filters containing "deny"
		for _, f := range rq.op.Filters {
			w.granted = append(w.granted, !strings.Contains(f, "deny"))
		}
		wins = append(wins, w)
	}
	// An Unsubscribe takes effect on the client when its UNSUBACK is processed
	// (its completion): it removes what is registered for the filter at that
	// moment.  One that completed before the Subscribe did has no effect on it.
	for _, rq := range r.reqs {
		if rq.op.K != "unsub" || rq.err != "" {
			continue
		}
		done := len(rq.completes) == 1
		for _, w := range wins {
			if done && rq.completes[0].stamp < w.from {
				continue
			}
			for _, f := range rq.op.Filters {
				for _, wf := range w.filters {
					if wf != f {
						continue
					}
					end := rq.call
					if end < w.from {
						end = w.from // already in flight when the callback was registered
					}
					if old, ok := w.until[f]; !ok || end < old {
						w.until[f] = end
					}
					if done {
						if old, ok := w.gone[f]; !ok || rq.completes[0].stamp < old {
							w.gone[f] = rq.completes[0].stamp
						}
					} else {
						delete(w.gone, f)
						w.neverGone[f] = true
					}
				}
			}
		}
	}
	// inbound application messages (per QoS 2 exchange once)
	type inbound struct {
		topic    string
		seq      int
		qos      byte
		lo, hi   int64 // window in which the client may hand it on
		n        int   // number of hand-overs due
		released bool
		relSeen  bool
	}
	var ins []*inbound
	open2 := map[uint16]*inbound{}
	var order []*inbound // QoS 2 exchanges in the order of their PUBLISH, not yet handed on
	for _, d := range r.down {
		switch d.P.Type {
		case refmqtt.PUBLISH:
			_, seq, ok := identify(d.P.Payload)
			if !ok {
				continue
			}
			if d.P.QoS == 2 {
				if open2[d.P.ID] != nil {
					continue // DUP repeat of an open exchange
				}
				in := &inbound{topic: d.P.Topic, seq: seq, qos: 2, lo: d.First, hi: -1}
				open2[d.P.ID] = in
				ins = append(ins, in)
				order = append(order, in)
				continue
			}
			ins = append(ins, &inbound{topic: d.P.Topic, seq: seq, qos: d.P.QoS, lo: d.First, hi: d.Last, n: 1, released: true})
		case refmqtt.PUBREL:
			if in := open2[d.P.ID]; in != nil {
				in.relSeen = true
				in.lo = d.First
				delete(open2, d.P.ID)
			}
			// the receiver hands released messages on in the order of the
			// PUBLISHes: everything released at the head of the queue goes now
			for len(order) > 0 && order[0].relSeen {
				order[0].released = true
				order[0].n = 1
				order[0].hi = d.Last
				order = order[1:]
			}
		}
	}
	// several publishes may carry the same seq (QoS 1 DUP repeats): group
	type key struct {
		topic string
		seq   int
	}
	due := map[key][]*inbound{}
	for _, in := range ins {
		k := key{in.topic, in.seq}
		due[k] = append(due[k], in)
	}
	overlapping := false
	for _, w := range wins {
		for i := range w.filters {
			for j := i + 1; j < len(w.filters); j++ {
				overlapping = true
			}
		}
	}
	_ = overlapping
	for _, w := range wins {
		cbN := map[key]int{}
		for _, e := range r.cbs {
			if e.req != w.req.idx {
				continue
			}
			_, seq, ok := identify(e.payload)
			k := key{e.topic, seq}
			if !ok || len(due[k]) == 0 {
				r.viol("C20", "callback-content", "C20/callback-unknown-message", "the callback of subscribe request %d was invoked with a message on %q that the server never sent (or whose payload was altered): %d bytes, intact=%v, seq %d, %s", w.req.idx, e.topic, len(e.payload), ok, seq, firstDiff(e.payload))
				continue
			}
			cbN[k]++
			// never for a topic that matches none of the request's granted filters
			match := false
			for i, f := range w.filters {
				if w.granted[i] && refmqtt.Match(f, e.topic) {
					match = true
				}
			}
			if !match {
				r.viol("C20", "callback-only-matching", "C20/callback-for-non-matching-topic", "the callback of subscribe request %d (filters %q) was invoked for topic %q", w.req.idx, w.filters, e.topic)
			}
			if e.stamp < w.req.call {
				r.viol("C20", "callback-window", "C20/callback-before-subscribe", "the callback of subscribe request %d was invoked before the request was made", w.req.idx)
			}
		}
		tag := ""
		if hasOverlap(w.filters) {
			tag = "/overlapping-filters-in-one-request"
		}
		for k, list := range due {
			// which filters of this request match, and are they certainly /
			// possibly registered for every hand-over of this message
			must, may := 0, 0
			for _, in := range list {
				if !in.released {
					continue
				}
				certain, possible := false, false
				for i, f := range w.filters {
					if !w.granted[i] || !refmqtt.Match(f, k.topic) {
						continue
					}
					end, hasEnd := w.until[f]
					gone, hasGone := w.gone[f]
					if w.neverGone[f] {
						hasGone = false
					}
					if in.lo > w.from && (!hasEnd || in.hi < end) {
						certain = true
					}
					if in.hi >= w.req.call && (!hasGone || in.lo < gone) {
						possible = true
					}
				}
				if certain && in.hi <= r.finalStamp {
					must += in.n
				}
				if possible {
					may += in.n
				}
			}
			got := cbN[k]
			otherUnsub := r.otherUnsub(w, k.topic)
			if got > may {
				r.viol("C20", "callback-exactly-once", "C20/callback-too-often"+tag, "the callback of subscribe request %d (filters %q) was invoked %d time(s) for message %d on %q; at most %d hand-over(s) fall into the time in which it may be registered", w.req.idx, w.filters, got, k.seq, k.topic, may)
			}
			if got < must && !otherUnsub {
				r.viol("C20", "callback-exactly-once", "C20/callback-missing"+tag, "the callback of subscribe request %d (filters %q, completed at stamp %d) was invoked %d time(s) for message %d on %q although %d hand-over(s) were due while it was certainly registered", w.req.idx, w.filters, w.from, got, k.seq, k.topic, must)
			} else if got < must && otherUnsub {
				r.viol("C20", "callback-exactly-once", "C20/callback-missing/removed-by-unsubscribe-of-another-request"+tag, "the callback of subscribe request %d (filters %q) was invoked %d time(s) for message %d on %q although %d were due: an Unsubscribe for a filter of a different Subscribe request removed it", w.req.idx, w.filters, got, k.seq, k.topic, must)
			}
		}
	}
}

func hasOverlap(fs []string) bool {
	// two filters of one request that can match a common topic
	for i := range fs {
		for j := i + 1; j < len(fs); j++ {
			if fs[i] == fs[j] || strings.ContainsAny(fs[i], "+#") || strings.ContainsAny(fs[j], "+#") {
				return true
			}
		}
	}
	return false
}

// otherUnsub reports whether some Unsubscribe named a filter string that is
// also a filter of window w although it was issued... by design every
// Unsubscribe in the script names filters by string, so "another request"
// means: the same filter string was subscribed by two requests.
func (r *run) otherUnsub(w *subWindow, topic string) bool {
	for _, rq := range r.reqs {
		if rq.op.K != "sub" || rq == w.req {
			continue
		}
		for _, f := range rq.op.Filters {
			for _, wf := range w.filters {
				if f == wf && refmqtt.Match(f, topic) {
					return true
				}
			}
		}
	}
	return false
}

// judgeReceiver: C02 (client role): acknowledgements the client sends for
// what the server delivers.
func (r *run) judgeReceiver() {
	// expected acknowledgement stream in the order of the server's packets
	var want []string
	for _, d := range r.down {
		switch d.P.Type {
		case refmqtt.PUBLISH:
			if d.P.QoS == 1 {
				want = append(want, fmt.Sprintf("PUBACK %d", d.P.ID))
			} else if d.P.QoS == 2 {
				want = append(want, fmt.Sprintf("PUBREC %d", d.P.ID))
			}
		case refmqtt.PUBREL:
			want = append(want, fmt.Sprintf("PUBCOMP %d", d.P.ID))
		}
	}
	var got []string
	for _, w := range r.up {
		switch w.P.Type {
		case refmqtt.PUBACK, refmqtt.PUBREC, refmqtt.PUBCOMP:
			got = append(got, fmt.Sprintf("%s %d", refmqtt.TypeName(w.P.Type), w.P.ID))
		}
	}
	n := len(got)
	if len(want) < n {
		n = len(want)
	}
	for i := 0; i < n; i++ {
		if got[i] != want[i] {
			r.viol("C02", "ack-stream", "C02/client-ack-mismatch", "the client's acknowledgement %d is %s, the server's packets call for %s (in order)", i, got[i], want[i])
			return
		}
	}
	if len(got) > len(want) {
		r.viol("C02", "ack-stream", "C02/client-extra-ack", "the client sent %d acknowledgements, the server's packets call for %d; first extra: %s", len(got), len(want), got[len(want)])
	} else if len(got) < len(want) && (!r.serverDead || r.disconnected) && !r.srvShut {
		// (after the server's half-close the client may end the connection
		// without flushing the answers it still owes: the statement is about
		// a connection that is alive in both directions)
		r.viol("C02", "ack-stream", "C02/client-missing-ack", "the client sent %d acknowledgements by the end, the server's packets call for %d; first missing: %s", len(got), len(want), want[len(got)])
	}
	// hand-over of QoS 2 messages not before the PUBREL
	rel := map[int]int64{}
	open2 := map[uint16]int{}
	for _, d := range r.down {
		if d.P.Type == refmqtt.PUBLISH && d.P.QoS == 2 {
			if _, seq, ok := identify(d.P.Payload); ok {
				if _, dup := open2[d.P.ID]; !dup {
					open2[d.P.ID] = seq
				}
			}
		}
		if d.P.Type == refmqtt.PUBREL {
			if seq, ok := open2[d.P.ID]; ok {
				if _, seen := rel[seq]; !seen {
					rel[seq] = d.First
				}
				delete(open2, d.P.ID)
			}
		}
	}
	q2seq := map[int]bool{}
	for _, d := range r.down {
		if d.P.Type == refmqtt.PUBLISH && d.P.QoS == 2 {
			if _, seq, ok := identify(d.P.Payload); ok {
				q2seq[seq] = true
			}
		}
	}
	for _, e := range r.cbs {
		_, seq, ok := identify(e.payload)
		if !ok || !q2seq[seq] {
			continue
		}
		t, released := rel[seq]
		if !released || e.stamp < t {
			r.viol("C02", "not-before-pubrel", "C02/client-handed-on-before-release", "the application callback received QoS 2 message %d at stamp %d, before the server sent the PUBREL (released: %v at %d)", seq, e.stamp, released, t)
			return
		}
	}
}

func firstDiff(p []byte) string {
	if len(p) < 8 {
		return fmt.Sprintf("% x", p)
	}
	want := payload(int(p[1]), int(p[2])<<8|int(p[3]), len(p))
	for i := range p {
		if p[i] != want[i] {
			j := i + 16
			if j > len(p) {
				j = len(p)
			}
			return fmt.Sprintf("first difference at offset %d: got % x want % x (header % x)", i, p[i:j], want[i:j], p[:8])
		}
	}
	return "no difference"
}
