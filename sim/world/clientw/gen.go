package clientw

import (
	"fmt"

	"verif/sim/simrt"
	"verif/sim/world"
)

type g struct {
	r  *simrt.Rand
	sc *Script
}

func newGen(seed uint64, prop string, idx int) *g {
	x := &g{r: simrt.NewRand(world.RunSeed(seed, prop+"/client-script", idx)), sc: &Script{}}
	r := x.r
	x.sc.BufSize = []int{16384, 16384, 65536}[r.Intn(3)]
	x.sc.LinkCap = []int{64, 1024, 65536, 65536}[r.Intn(4)]
	switch r.Intn(3) {
	case 0:
		x.sc.PIDStart = uint64(0xfff0 + r.Intn(0x20))
	case 1:
		x.sc.PIDStart = uint64(r.Intn(100))
	default:
		x.sc.PIDStart = uint64(r.Intn(1 << 18))
	}
	x.sc.SegNum = r.Intn(4)
	x.sc.ConnMode = "ok"
	x.sc.ConnSP = r.Bool(1, 4)
	x.sc.AckPolicy = []string{"immediate", "shuffle", "shuffle"}[r.Intn(3)]
	return x
}

var topicsPool = []string{"a", "b", "a/b", "a/c", "b/c", "a/b/c", "x"}
var filterPool = []string{"a", "b", "a/b", "a/+", "a/#", "+/c", "#", "b/#", "x", "deny/a"}

func (x *g) size() int {
	r := x.r
	switch r.Intn(8) {
	case 0:
		return 2000 + r.Intn(5000)
	case 1:
		return 200 + r.Intn(1500)
	default:
		return 8 + r.Intn(60)
	}
}

// genCompletions: C12 client role.
func genCompletions(tier string, seed uint64, idx int) interface{} {
	x := newGen(seed, "C12", idx)
	r := x.r
	x.sc.Profile = "completions"
	if r.Bool(1, 5) {
		x.sc.Withhold = 2 + r.Intn(4)
	}
	if r.Bool(1, 3) {
		x.sc.DupAcks = 2 + r.Intn(4)
	}
	napps := 1 + r.Intn(3)
	marker := 0
	pinged := false
	if r.Bool(1, 4) {
		// burst: a few requests of one kind complete (the head of that
		// acknowledgement queue leaves slot 0), then more than its 16 slots
		// pile up behind a withheld acknowledgement: growth of a wrapped ring,
		// slots reused while repeated old acknowledgements arrive
		q := byte(1 + r.Intn(2))
		var ops []AOp
		for i := 1 + r.Intn(6); i > 0; i-- {
			ops = append(ops, AOp{K: "pub", Topic: topicsPool[r.Intn(len(topicsPool))], QoS: q, Size: 8 + r.Intn(40)})
		}
		ops = append(ops, AOp{K: "barrier"})
		x.sc.Withhold = 0
		if r.Bool(2, 3) {
			x.sc.Withhold = 2 + r.Intn(6)
		}
		for i := 17 + r.Intn(25); i > 0; i-- {
			ops = append(ops, AOp{K: "pub", Topic: topicsPool[r.Intn(len(topicsPool))], QoS: q, Size: 8 + r.Intn(40)})
			if r.Bool(1, 12) {
				ops = append(ops, AOp{K: "barrier"})
			}
		}
		x.sc.Apps = append(x.sc.Apps, ops)
		napps = r.Intn(2)
	}
	for a := 0; a < napps; a++ {
		var ops []AOp
		n := 1 + r.Intn(8)
		for i := 0; i < n; i++ {
			switch k := r.Intn(10); {
			case k < 6:
				ops = append(ops, AOp{K: "pub", Topic: topicsPool[r.Intn(len(topicsPool))], QoS: byte(r.Intn(3)), Size: x.size()})
			case k < 8:
				// (a unique marker filter makes the request recognisable on the wire)
				marker++
				f := filterPool[r.Intn(len(filterPool))]
				ops = append(ops, AOp{K: "sub", Filters: []string{f, fmt.Sprintf("m/%d", marker)}, QoSs: []byte{byte(r.Intn(3)), 0}, CB: a*10 + i})
			case k < 9:
				marker++
				ops = append(ops, AOp{K: "unsub", Filters: []string{filterPool[r.Intn(len(filterPool))], fmt.Sprintf("m/%d", marker)}})
			default:
				// the PINGREQ slot holds one request: at most one ping per run
				if !pinged {
					pinged = true
					ops = append(ops, AOp{K: "ping"})
				}
			}
			if r.Bool(1, 6) {
				ops = append(ops, AOp{K: "barrier"})
			}
		}
		x.sc.Apps = append(x.sc.Apps, ops)
	}
	return x.sc
}

// genDispatch: C20.
func genDispatch(tier string, seed uint64, idx int) interface{} {
	x := newGen(seed, "C20", idx)
	r := x.r
	x.sc.Profile = "dispatch"
	switch k := r.Intn(10); {
	case k < 3:
		// connect variants
		x.sc.ConnMode = []string{"code", "code", "malformed", "silent", "close-before", "close-inside"}[r.Intn(6)]
		x.sc.ConnCode = byte(1 + r.Intn(5))
		x.sc.ConnectTimeout = 1 + r.Intn(3)
		x.sc.Apps = [][]AOp{{{K: "ping"}}}
		return x.sc
	}
	if r.Bool(1, 4) {
		// a second life of the client in the same process, under the same
		// client identifier: after the server dropped the connection (the
		// application never calls Disconnect on the dead client) or after a
		// Disconnect; the second CONNECT is accepted or refused with a code
		x.sc.Reconnect = []string{"drop-ok", "drop-ok", "drop-code", "disc-ok", "disc-code"}[r.Intn(5)]
		x.sc.ReCode = byte(1 + r.Intn(5))
		x.sc.ReNew = r.Bool(1, 2)
	}
	napps := 1 + r.Intn(2)
	overlap := tier == "thorough" || r.Bool(1, 4)
	seq := 0
	var subscribed []string
	unknown := 0
	for a := 0; a < napps; a++ {
		var ops []AOp
		n := 1 + r.Intn(5)
		for i := 0; i < n; i++ {
			switch k := r.Intn(10); {
			case k < 6:
				nf := 1
				if overlap {
					nf = 1 + r.Intn(4)
				}
				op := AOp{K: "sub", CB: a*10 + i}
				for j := 0; j < nf; j++ {
					f := filterPool[r.Intn(len(filterPool))]
					if !overlap {
						// one literal filter per request, never shared between requests
						f = fmt.Sprintf("u%d/%d", a, len(subscribed))
					}
					op.Filters = append(op.Filters, f)
					op.QoSs = append(op.QoSs, byte(r.Intn(3)))
					subscribed = append(subscribed, f)
				}
				ops = append(ops, op)
			case k < 8 && len(subscribed) > 0:
				op := AOp{K: "unsub", Filters: []string{subscribed[r.Intn(len(subscribed))]}}
				if r.Bool(1, 3) {
					// several filters in one request, possibly one that was never
					// subscribed (its removal fails; the others must still go)
					for j := r.Intn(2); j > 0; j-- {
						op.Filters = append(op.Filters, subscribed[r.Intn(len(subscribed))])
					}
					if r.Bool(2, 3) {
						unknown++
						at := r.Intn(len(op.Filters) + 1)
						fs := append([]string{}, op.Filters[:at]...)
						fs = append(fs, fmt.Sprintf("nx%d/%d", a, unknown))
						op.Filters = append(fs, op.Filters[at:]...)
					}
				}
				ops = append(ops, op)
			default:
				ops = append(ops, AOp{K: "barrier"})
			}
			if r.Bool(1, 2) {
				ops = append(ops, AOp{K: "barrier"})
			}
		}
		ops = append(ops, AOp{K: "barrier"})
		x.sc.Apps = append(x.sc.Apps, ops)
	}
	// the server delivers around those points
	ns := 3 + r.Intn(12)
	for i := 0; i < ns; i++ {
		seq++
		t := topicsPool[r.Intn(len(topicsPool))]
		if len(subscribed) > 0 && r.Bool(2, 3) {
			t = concretize(r, subscribed[r.Intn(len(subscribed))])
		}
		op := SOp{K: "pub", Topic: t, QoS: byte(r.Intn(3)), Size: 8 + r.Intn(100), Seq: seq}
		if op.QoS > 0 {
			// a conforming sender does not reuse an identifier before the
			// exchange is complete; the script cannot wait, so it never reuses
			op.ID = uint16(1000 + seq)
			// the first copy the client sees may already be a retransmission
			op.Dup = r.Bool(1, 6)
		}
		x.sc.Srv = append(x.sc.Srv, op)
		if op.QoS == 2 && r.Bool(1, 3) {
			// duplicates before the release
			last := &x.sc.Srv[len(x.sc.Srv)-1]
			last.NoRel = true
			d := *last
			d.Dup = true
			x.sc.Srv = append(x.sc.Srv, d)
			x.sc.Srv = append(x.sc.Srv, SOp{K: "pubrel", ID: op.ID})
		}
		if op.QoS == 1 && r.Bool(1, 6) {
			d := op
			d.Dup = true
			x.sc.Srv = append(x.sc.Srv, d)
		}
		if r.Bool(1, 3) {
			x.sc.Srv = append(x.sc.Srv, SOp{K: "barrier"})
		}
	}
	if len(subscribed) > 0 && r.Bool(1, 5) {
		// at the very end: a burst of QoS 0/1 messages, then the server shuts
		// down its sending direction at once (it keeps reading): everything it
		// sent has been delivered to the client
		x.sc.Srv = append(x.sc.Srv, SOp{K: "barrier"})
		for i := 2 + r.Intn(10); i > 0; i-- {
			seq++
			op := SOp{K: "pub", Topic: concretize(r, subscribed[r.Intn(len(subscribed))]), QoS: byte(r.Intn(2)), Size: 8 + r.Intn(200), Seq: seq}
			if op.QoS > 0 {
				op.ID = uint16(1000 + seq)
			}
			x.sc.Srv = append(x.sc.Srv, op)
		}
		x.sc.Srv = append(x.sc.Srv, SOp{K: "shutwr"})
	}
	return x.sc
}

func concretize(r *simrt.Rand, f string) string {
	out := ""
	start := 0
	add := func(l string) {
		if out != "" {
			out += "/"
		}
		out += l
	}
	for i := 0; i <= len(f); i++ {
		if i == len(f) || f[i] == '/' {
			l := f[start:i]
			switch l {
			case "+":
				add([]string{"a", "b", "c"}[r.Intn(3)])
			case "#":
				for k := r.Intn(3); k > 0; k-- {
					add([]string{"a", "b", "c"}[r.Intn(3)])
				}
			default:
				add(l)
			}
			start = i + 1
		}
	}
	if out == "" {
		out = "a"
	}
	return out
}

// genReceiver: C02 client role.
func genReceiver(tier string, seed uint64, idx int) interface{} {
	x := newGen(seed, "C02", idx)
	r := x.r
	x.sc.Profile = "receiver"
	x.sc.AckPolicy = "immediate"
	x.sc.Apps = [][]AOp{{{K: "sub", Filters: []string{"#"}, QoSs: []byte{2}, CB: 1}, {K: "barrier"}, {K: "barrier"}}}
	x.sc.Srv = append(x.sc.Srv, SOp{K: "barrier"})
	nextID := 1 + r.Intn(60000)
	ids := make([]uint16, 1+r.Intn(4))
	fresh := func() uint16 { nextID++; return uint16(nextID) }
	for i := range ids {
		ids[i] = fresh()
	}
	var order []uint16
	open := map[uint16]SOp{}
	seq := 0
	n := 3 + r.Intn(14)
	bulk := r.Bool(1, 2)
	for i := 0; i < n; i++ {
		id := ids[r.Intn(len(ids))]
		if len(order) > 0 && r.Bool(1, 2) {
			id = order[0]
		}
		_, isOpen := open[id]
		if isOpen && order[0] != id {
			id = order[0]
		}
		_, isOpen = open[id]
		switch k := r.Intn(10); {
		case k < 3 && !isOpen:
			seq++
			op := SOp{K: "pub", Topic: topicsPool[r.Intn(len(topicsPool))], QoS: 1, ID: id, Size: x.size(), Seq: seq, Dup: r.Bool(1, 6)}
			x.sc.Srv = append(x.sc.Srv, op)
			for r.Bool(1, 4) {
				d := op
				d.Dup = true
				x.sc.Srv = append(x.sc.Srv, d)
			}
			for k := range ids {
				if ids[k] == id {
					ids[k] = fresh()
				}
			}
		case k < 6 && !isOpen:
			seq++
			op := SOp{K: "pub", Topic: topicsPool[r.Intn(len(topicsPool))], QoS: 2, ID: id, Size: x.size(), Seq: seq, NoRel: true, Dup: r.Bool(1, 6)}
			x.sc.Srv = append(x.sc.Srv, op)
			open[id] = op
			order = append(order, id)
		case k < 7 && isOpen:
			d := open[id]
			d.Dup = true
			x.sc.Srv = append(x.sc.Srv, d)
		case k < 9 && isOpen:
			x.sc.Srv = append(x.sc.Srv, SOp{K: "pubrel", ID: id})
			for r.Bool(1, 4) {
				x.sc.Srv = append(x.sc.Srv, SOp{K: "pubrel", ID: id})
			}
			delete(open, id)
			order = order[1:]
			// the identifier is not reused: the script cannot wait for the PUBCOMP
			for k := range ids {
				if ids[k] == id {
					ids[k] = fresh()
				}
			}
		default:
			if !isOpen && r.Bool(1, 2) {
				x.sc.Srv = append(x.sc.Srv, SOp{K: "pubrel", ID: id}) // not in flight
			}
		}
		if bulk && r.Bool(1, 3) {
			total := 0
			for total < 2*x.sc.BufSize && total < 70000 {
				seq++
				sz := 3000 + r.Intn(4000)
				x.sc.Srv = append(x.sc.Srv, SOp{K: "pub", Topic: "bulk", Size: sz, Seq: seq})
				total += sz
			}
		}
	}
	released := true
	for _, id := range order {
		if !r.Bool(3, 4) {
			released = false
			break
		}
		x.sc.Srv = append(x.sc.Srv, SOp{K: "pubrel", ID: id})
	}
	if released && r.Bool(1, 4) {
		// pipelined QoS 2: a few complete exchanges, then more PUBLISH packets
		// in flight than the 16 slots of the client's queue; a prefix is
		// released, the rest only in half of the runs
		for i := 1 + r.Intn(6); i > 0; i-- {
			seq++
			x.sc.Srv = append(x.sc.Srv, SOp{K: "pub", Topic: topicsPool[r.Intn(len(topicsPool))], QoS: 2, ID: fresh(), Size: 8 + r.Intn(60), Seq: seq})
		}
		x.sc.Srv = append(x.sc.Srv, SOp{K: "barrier"})
		x.sc.Apps[0] = append(x.sc.Apps[0], AOp{K: "barrier"})
		var ids []uint16
		for i := 17 + r.Intn(10); i > 0; i-- {
			seq++
			id := fresh()
			ids = append(ids, id)
			x.sc.Srv = append(x.sc.Srv, SOp{K: "pub", Topic: topicsPool[r.Intn(len(topicsPool))], QoS: 2, ID: id, Size: 8 + r.Intn(60), Seq: seq, NoRel: true})
		}
		x.sc.Srv = append(x.sc.Srv, SOp{K: "barrier"})
		x.sc.Apps[0] = append(x.sc.Apps[0], AOp{K: "barrier"})
		cut := r.Intn(len(ids) + 1)
		for _, id := range ids[:cut] {
			x.sc.Srv = append(x.sc.Srv, SOp{K: "pubrel", ID: id})
		}
		if r.Bool(1, 2) {
			x.sc.Srv = append(x.sc.Srv, SOp{K: "barrier"})
			x.sc.Apps[0] = append(x.sc.Apps[0], AOp{K: "barrier"})
			for _, id := range ids[cut:] {
				x.sc.Srv = append(x.sc.Srv, SOp{K: "pubrel", ID: id})
			}
		}
	}
	if released && r.Bool(1, 4) {
		// a burst of QoS 0/1 messages, then the server shuts down its sending
		// direction while it goes on reading: the client has received them
		for i := 3 + r.Intn(12); i > 0; i-- {
			seq++
			op := SOp{K: "pub", Topic: topicsPool[r.Intn(len(topicsPool))], QoS: byte(r.Intn(2)), Size: 8 + r.Intn(300), Seq: seq}
			if op.QoS > 0 {
				op.ID = fresh()
			}
			x.sc.Srv = append(x.sc.Srv, op)
		}
		x.sc.Srv = append(x.sc.Srv, SOp{K: "shutwr"})
	}
	x.sc.Srv = append(x.sc.Srv, SOp{K: "barrier"})
	return x.sc
}

// Shrink proposes smaller client scripts.
func Shrink(script interface{}) []interface{} {
	sc := script.(*Script)
	var out []interface{}
	cp := func() *Script {
		n := *sc
		n.Apps = make([][]AOp, len(sc.Apps))
		for i := range sc.Apps {
			n.Apps[i] = append([]AOp{}, sc.Apps[i]...)
		}
		n.Srv = append([]SOp{}, sc.Srv...)
		return &n
	}
	for a := range sc.Apps {
		if len(sc.Apps[a]) > 0 && a > 0 {
			n := cp()
			n.Apps[a] = nil
			out = append(out, n)
		}
	}
	if len(sc.Srv) > 1 {
		n := cp()
		n.Srv = n.Srv[:len(n.Srv)/2]
		out = append(out, n)
	}
	for a := range sc.Apps {
		for i := len(sc.Apps[a]) - 1; i >= 0 && len(out) < 120; i-- {
			n := cp()
			n.Apps[a] = append(n.Apps[a][:i], n.Apps[a][i+1:]...)
			out = append(out, n)
		}
	}
	for i := len(sc.Srv) - 1; i >= 0 && len(out) < 240; i-- {
		n := cp()
		n.Srv = append(n.Srv[:i], n.Srv[i+1:]...)
		out = append(out, n)
	}
	for a := range sc.Apps {
		for i, op := range sc.Apps[a] {
			if op.K == "pub" && op.Size > 16 {
				n := cp()
				n.Apps[a][i].Size = 8
				out = append(out, n)
			}
			if op.K == "sub" && len(op.Filters) > 1 {
				for f := range op.Filters {
					n := cp()
					o := &n.Apps[a][i]
					o.Filters = append(append([]string{}, op.Filters[:f]...), op.Filters[f+1:]...)
					o.QoSs = append(append([]byte{}, op.QoSs[:f]...), op.QoSs[f+1:]...)
					out = append(out, n)
				}
			}
		}
	}
	if sc.Withhold != 0 {
		n := cp()
		n.Withhold = 0
		out = append(out, n)
	}
	if sc.AckPolicy != "immediate" {
		n := cp()
		n.AckPolicy = "immediate"
		out = append(out, n)
	}
	if sc.LinkCap != 65536 {
		n := cp()
		n.LinkCap = 65536
		out = append(out, n)
	}
	if sc.SegNum != 0 {
		n := cp()
		n.SegNum = 0
		out = append(out, n)
	}
	return out
}

var real = []string{"service.Client (Connect, Publish, Subscribe, Unsubscribe, Ping, Disconnect)", "service.service (receiver, processor, sender, process* handlers, stop) in the client role", "service.buffer", "sessions (Session, Ackqueue)", "topics.MemTopics (per-client callback tree)", "message (all codecs)"}
var stub = []string{"sync, sync/atomic, time, net (simulator models; simulated TCP-like transport)", "the MQTT server (scripted peer over the independent reference codec refmqtt)", "go-logging (real code, level off)"}
var assume = []string{
	"MQTT runs over an ordered, lossless byte stream; faults are segmentation, back-pressure, acknowledgements delayed, reordered or withheld, connection refusal, malformed / missing / cut CONNACK",
	"sync.Cond wake-up is FIFO and never spurious; Mutex hand-off may go to any waiter (simulator models)",
	"tasks switch only at sync/atomic/time/net operations and harness yield points",
	"not executed: ConnectTLS (differs from Connect only in the dial call)",
}

// Defs of the client world (registered by package all, which combines the two
// roles of C02 and C12 with the broker world).
func Defs() map[string]*world.Def {
	mk := func(prop string, gen func(string, uint64, int) interface{}, rule string, quick, thorough int) *world.Def {
		return &world.Def{Prop: prop, World: "client", Gen: gen, NewScript: func() interface{} { return &Script{} }, Run: Run, Shrink: Shrink,
			Rule: rule, Real: real, Stub: stub, Level: "exploration", QuickRuns: quick, ThoroughRuns: thorough, Assumptions: assume}
	}
	return map[string]*world.Def{
		"C20": mk("C20", genDispatch, "script = the real Client connects through the simulated transport to a scripted server answering CONNACK code 0-5 / SessionPresent 0/1 / malformed CONNACK / silence (connect timeout in virtual time) / close before or inside the CONNACK; then 1-2 application tasks issue Subscribe requests (distinct callback per request; quick tier: one literal filter per request, a quarter of the runs and the thorough tier: 1-4 wildcard and overlapping filters, filters shared between requests, filters the server denies with 0x80) and Unsubscribe (one subscribed filter, or several with a never-subscribed filter at any position), while the server delivers PUBLISH QoS 0-2 with DUP repeats (a sixth of the first copies already carry DUP), explicit PUBREL, matching and non-matching topics around those points; a fifth of the scripts end with a burst of QoS 0/1 messages after which the server at once shuts down its sending direction (half-close). Oracle: Connect result table (nil iff code 0, error equals the refusal code, no goroutine and no open connection after a failed Connect); per completed Subscribe the callback count per message between certain and possible hand-overs, never for non-matching topics. Non-trivial = at least one request or a non-accepting CONNACK mode.", 50000, 10000000),
		"C12": mk("C12", genCompletions, "client role: 1-3 application tasks call Publish (QoS 0-2), Subscribe, Unsubscribe, Ping on one Client; the scripted server acknowledges immediately or in any order at scheduler-chosen moments (also before the sending call has returned), withholding some acknowledgements until the end; in a third of the runs every n-th final acknowledgement is followed by a byte-identical repeat of an earlier one; a quarter of the runs are bursts (1-6 requests of one QoS complete, then 17-41 more pile up behind a withheld acknowledgement, so that the acknowledgement queue grows while wrapped and its slots are reused); packet-id counter starting near 65535 in a third of the runs. Oracle: exactly one completion per request, not before the last byte of its terminal acknowledgement, QoS 0 inside the call, completion due at the end when the acknowledgement and all earlier ones of the kind arrived, PUBREL per PUBREC, distinct non-zero identifiers in flight, strict parse of every byte the client writes.", 12000, 350000),
		"C02": mk("C02", genReceiver, "client role: the Client subscribes to # and the scripted server plays the sender script of the broker role (PUBLISH QoS 1 with DUP repeats, QoS 2 with DUP repeats before the PUBREL, PUBREL in order, repeated and unknown PUBREL, more than two ring sizes of unrelated traffic). Oracle: the client's acknowledgement stream equals what the server's packets call for, in order; OnPublishFunc once per QoS 1 PUBLISH and once per QoS 2 exchange, not before the PUBREL, payload byte-identical.", 12000, 500000),
	}
}
