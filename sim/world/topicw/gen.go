package topicw

import (
	"verif/sim/simrt"
	"verif/sim/world"
)

func gen(tier string, seed uint64, idx int) interface{} {
	r := simrt.NewRand(world.RunSeed(seed, "C06/script", idx))
	sc := &Script{MaxQoS: byte([]int{2, 2, 1, 0}[r.Intn(4)])}
	levels := []string{"a", "b"}
	if r.Bool(1, 3) {
		levels = append(levels, "")
	}
	if r.Bool(1, 3) {
		levels = append(levels, "c", "dd")
	}
	if r.Bool(1, 8) {
		// a level that begins with '$' somewhere behind the first level is an
		// ordinary level (MQTT 4.7.2 speaks of topic names that begin with '$')
		levels = append(levels, "$s")
	}
	flevels := append(append([]string{}, levels...), "+", "#")
	name := func(alpha []string, filter bool) string {
		n := 1 + r.Intn(4)
		s := ""
		for i := 0; i < n; i++ {
			if i > 0 {
				s += "/"
			}
			l := alpha[r.Intn(len(alpha))]
			if i == 0 && l == "$s" {
				l = "a"
			}
			if filter && l == "#" && i != n-1 && !r.Bool(1, 20) {
				l = "+"
			}
			s += l
		}
		if s == "" {
			s = alpha[0]
		}
		if filter && r.Bool(1, 25) {
			s = []string{"a/#/b", "a+", "#x", "+x", "a/b#"}[r.Intn(5)]
		}
		return s
	}
	ntasks := 1
	nops := 20 + r.Intn(200)
	if r.Bool(1, 2) {
		ntasks = 2 + r.Intn(2)
		nops = 6 + r.Intn(30)
	} else if r.Bool(1, 5) {
		nops = 1000
	}
	nsubs := 1 + r.Intn(4)
	var used []string
	seq := 0
	sc.Tasks = make([][]Op, ntasks)
	for i := 0; i < nops; i++ {
		t := r.Intn(ntasks)
		var op Op
		switch k := r.Intn(20); {
		case k < 6:
			f := name(flevels, true)
			if len(used) > 0 && r.Bool(1, 3) {
				f = used[r.Intn(len(used))]
			}
			used = append(used, f)
			q := byte(r.Intn(3))
			if r.Bool(1, 30) {
				q = 3
			}
			op = Op{K: "sub", Sub: r.Intn(nsubs), Filter: f, QoS: q}
		case k < 9:
			f := name(flevels, true)
			if len(used) > 0 && r.Bool(4, 5) {
				f = used[r.Intn(len(used))]
			}
			op = Op{K: "unsub", Sub: r.Intn(nsubs), Filter: f}
		case k < 14:
			op = Op{K: "subs", Filter: name(levels, false), QoS: byte(r.Intn(3))}
		case k < 17:
			seq++
			sz := 4 + r.Intn(60)
			if r.Bool(1, 4) {
				sz = 0
			}
			op = Op{K: "retain", Filter: name(levels, false), QoS: byte(r.Intn(3)), Size: sz, Seq: seq}
		default:
			op = Op{K: "retained", Filter: name(flevels, true)}
		}
		sc.Tasks[t] = append(sc.Tasks[t], op)
	}
	return sc
}

func shrink(script interface{}) []interface{} {
	sc := script.(*Script)
	var out []interface{}
	cp := func() *Script {
		n := *sc
		n.Tasks = make([][]Op, len(sc.Tasks))
		for i := range sc.Tasks {
			n.Tasks[i] = append([]Op{}, sc.Tasks[i]...)
		}
		return &n
	}
	for t := range sc.Tasks {
		if len(sc.Tasks[t]) > 1 {
			n := cp()
			n.Tasks[t] = n.Tasks[t][:len(n.Tasks[t])/2]
			out = append(out, n)
		}
	}
	for t := range sc.Tasks {
		for i := len(sc.Tasks[t]) - 1; i >= 0 && len(out) < 200; i-- {
			n := cp()
			n.Tasks[t] = append(n.Tasks[t][:i], n.Tasks[t][i+1:]...)
			out = append(out, n)
		}
	}
	if sc.MaxQoS != 2 {
		n := cp()
		n.MaxQoS = 2
		out = append(out, n)
	}
	return out
}

func init() {
	world.Register(&world.Def{
		Prop: "C06", World: "topics", Gen: gen, NewScript: func() interface{} { return &Script{} }, Run: Run, Shrink: shrink,
		Enumerate: func(tier string) []interface{} { return []interface{}{&Script{MaxQoS: 2, Sweep: true}} },
		Rule:      "script = 1 caller with 20-220 (sometimes 1000) or 2-3 concurrent callers with 6-35 calls of Subscribe / Unsubscribe / Subscribers / Retain / Retained on one MemTopics (filters over {a,b,+,#} plus empty levels or a larger vocabulary in a third of the runs, invalid filters and QoS, several subscribers, re-subscription with another QoS, retained set/clear), MaxQosAllowed 0-2; sequential histories compared call by call with a specification model (MQTT 4.7 matcher + maps), concurrent ones checked with porcupine (invoke/return stamped with the simulator's event sequence numbers; Retained compared on the selected topics). One enumerated script per batch sweeps all 780 filter strings x 120 topic names of up to four levels over {a,b,empty,+,#} for filter validity, subscriber matching and retained selection. Non-trivial = more than two calls; distinct = schedule hash.",
		Real:      []string{"topics.MemTopics (Subscribe, Unsubscribe, Subscribers, Retain, Retained)", "message.PublishMessage (encode/decode of retained messages)"},
		Stub:      []string{"sync (simulator model: RWMutex with writer preference)", "callers (scripted tasks)"},
		Level:     "exploration", QuickRuns: 40000, ThoroughRuns: 4000000,
		Assumptions: []string{
			"RWMutex prefers writers; lock hand-off may go to any waiter (simulator models of Go's primitives)",
			"linearizability is checked for histories of at most 35 calls; porcupine time-outs are counted as inconclusive, never as violations or passes",
			"in concurrent histories Retained is compared on the set of topics it selected, not on message content (references into the store are rewritten in place by later Retain calls; content is compared in sequential histories and end-to-end under C08)",
		},
	})
}
