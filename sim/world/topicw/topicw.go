// Package topicw simulates topics.MemTopics as a concurrent object (C06):
// 1-3 tasks issue Subscribe / Unsubscribe / Subscribers / Retain / Retained on
// one provider; sequential histories are compared step by step with a
// specification model, concurrent ones are checked for linearizability with
// porcupine, and one enumerated script sweeps every filter x topic pair of up
// to four levels over a small alphabet.
package topicw

import (
	"fmt"
	"sort"
	"strings"
	"time"

	"github.com/anishathalye/porcupine"
	"github.com/mdzio/go-mqtt/message"
	"github.com/mdzio/go-mqtt/topics"

	"verif/sim/refmqtt"
	"verif/sim/simrt"
	"verif/sim/world"
)

// Op is one call.
type Op struct {
	K      string `json:"k"` // sub unsub subs retain retained
	Sub    int    `json:"s,omitempty"`
	Filter string `json:"f,omitempty"` // filter (sub/unsub/retained) or topic (subs/retain)
	QoS    byte   `json:"q,omitempty"`
	Size   int    `json:"n,omitempty"` // retain: payload size (0 clears)
	Seq    int    `json:"i,omitempty"`
}

// Script of a topics run.
type Script struct {
	MaxQoS byte   `json:"maxqos"`
	Tasks  [][]Op `json:"tasks"`
	Sweep  bool   `json:"sweep,omitempty"`
}

// ---- specification model

type subEntry struct {
	sub    int
	filter string
	qos    byte
}

type retEntry struct {
	topic string
	seq   int
	size  int
	qos   byte
}

// state is immutable; every step returns a fresh one.
type state struct {
	subs []subEntry // sorted by (sub, filter)
	ret  []retEntry // sorted by topic
}

func (s state) key() string {
	var b strings.Builder
	for _, e := range s.subs {
		fmt.Fprintf(&b, "%d|%s|%d;", e.sub, e.filter, e.qos)
	}
	b.WriteString("#")
	for _, e := range s.ret {
		fmt.Fprintf(&b, "%s|%d|%d|%d;", e.topic, e.seq, e.size, e.qos)
	}
	return b.String()
}

type pair struct {
	sub int
	qos byte
}

// result of a call as observed / as the model predicts
type result struct {
	err     bool
	qos     byte     // sub
	pairs   []pair   // subs (sorted)
	retKeys []string // retained: "topic|seq|size|qos" (sorted); concurrent mode: topics only
}

func validTopic(t string) bool {
	return len(t) > 0 && !strings.ContainsAny(t, "+#")
}

// step applies op to st: returns the new state and the expected result.
// errKnown reports whether the statement fixes the error outcome.
func step(st state, op Op, maxq byte) (state, result, bool) {
	switch op.K {
	case "sub":
		if !refmqtt.ValidFilter(op.Filter) || op.QoS > 2 {
			return st, result{err: true}, true // rejected without side effects
		}
		q := op.QoS
		if q > maxq {
			q = maxq
		}
		ns := state{ret: st.ret}
		found := false
		for _, e := range st.subs {
			if e.sub == op.Sub && e.filter == op.Filter {
				e.qos = q
				found = true
			}
			ns.subs = append(ns.subs, e)
		}
		if !found {
			ns.subs = append(ns.subs, subEntry{op.Sub, op.Filter, q})
			sort.Slice(ns.subs, func(i, j int) bool {
				if ns.subs[i].sub != ns.subs[j].sub {
					return ns.subs[i].sub < ns.subs[j].sub
				}
				return ns.subs[i].filter < ns.subs[j].filter
			})
		}
		return ns, result{qos: q}, true
	case "unsub":
		ns := state{ret: st.ret}
		found := false
		for _, e := range st.subs {
			if e.sub == op.Sub && e.filter == op.Filter {
				found = true
				continue
			}
			ns.subs = append(ns.subs, e)
		}
		// what Unsubscribe returns for an absent subscription is not asserted
		return ns, result{err: !found}, found
	case "subs":
		var res result
		if !validTopic(op.Filter) || op.QoS > 2 {
			return st, result{err: true}, false
		}
		for _, e := range st.subs {
			if refmqtt.Match(e.filter, op.Filter) {
				q := op.QoS
				if e.qos < q {
					q = e.qos
				}
				res.pairs = append(res.pairs, pair{e.sub, q})
			}
		}
		sortPairs(res.pairs)
		return st, res, true
	case "retain":
		ns := state{subs: st.subs}
		for _, e := range st.ret {
			if e.topic != op.Filter {
				ns.ret = append(ns.ret, e)
			}
		}
		if op.Size > 0 {
			ns.ret = append(ns.ret, retEntry{op.Filter, op.Seq, op.Size, op.QoS})
			sort.Slice(ns.ret, func(i, j int) bool { return ns.ret[i].topic < ns.ret[j].topic })
		}
		return ns, result{}, op.Size > 0
	case "retained":
		var res result
		if !refmqtt.ValidFilter(op.Filter) {
			return st, result{err: true}, false
		}
		for _, e := range st.ret {
			if refmqtt.Match(op.Filter, e.topic) {
				res.retKeys = append(res.retKeys, fmt.Sprintf("%s|%d|%d|%d", e.topic, e.seq, e.size, e.qos))
			}
		}
		sort.Strings(res.retKeys)
		return st, res, true
	}
	return st, result{}, false
}

func sortPairs(p []pair) {
	sort.Slice(p, func(i, j int) bool {
		if p[i].sub != p[j].sub {
			return p[i].sub < p[j].sub
		}
		return p[i].qos < p[j].qos
	})
}

func payload(seq, size int) []byte {
	p := make([]byte, size)
	x := uint32(seq)*2654435761 + 17
	for i := range p {
		x = x*1664525 + 1013904223
		p[i] = byte(x >> 24)
	}
	if size >= 4 {
		p[0], p[1], p[2], p[3] = byte(seq>>24), byte(seq>>16), byte(seq>>8), byte(seq)
	}
	return p
}

// ---- execution against the real provider

type call struct {
	op        Op
	task      int
	inv, ret  int64
	got       result
	retTopics []string
}

var subIDs [16]int

func exec(mt *topics.MemTopics, op Op, subs *[]interface{}, qoss *[]byte, concurrent bool) (result, []string) {
	var res result
	switch op.K {
	case "sub":
		q, err := mt.Subscribe([]byte(op.Filter), op.QoS, &subIDs[op.Sub])
		res.err = err != nil
		res.qos = q
	case "unsub":
		err := mt.Unsubscribe([]byte(op.Filter), &subIDs[op.Sub])
		res.err = err != nil
	case "subs":
		err := mt.Subscribers([]byte(op.Filter), op.QoS, subs, qoss)
		res.err = err != nil
		if err == nil {
			for i, s := range *subs {
				id := -1
				if p, ok := s.(*int); ok {
					for k := range subIDs {
						if p == &subIDs[k] {
							id = k
						}
					}
				}
				res.pairs = append(res.pairs, pair{id, (*qoss)[i]})
			}
			sortPairs(res.pairs)
		}
	case "retain":
		m := message.NewPublishMessage()
		m.SetTopic([]byte(op.Filter))
		m.SetQoS(op.QoS)
		m.SetRetain(true)
		m.SetPayload(payload(op.Seq, op.Size))
		if op.QoS > 0 {
			m.SetPacketID(uint16(1 + op.Seq%60000))
		}
		err := mt.Retain(m)
		res.err = err != nil
	case "retained":
		var msgs []*message.PublishMessage
		err := mt.Retained([]byte(op.Filter), &msgs)
		res.err = err != nil
		var ts []string
		if err == nil {
			for _, m := range msgs {
				p := m.Payload()
				seq := -1
				if len(p) >= 4 {
					seq = int(p[0])<<24 | int(p[1])<<16 | int(p[2])<<8 | int(p[3])
					want := payload(seq, len(p))
					for i := range p {
						if p[i] != want[i] {
							seq = -2 // corrupted
							break
						}
					}
				}
				res.retKeys = append(res.retKeys, fmt.Sprintf("%s|%d|%d|%d", m.Topic(), seq, len(p), m.QoS()))
				ts = append(ts, string(m.Topic()))
			}
			sort.Strings(res.retKeys)
			sort.Strings(ts)
		}
		return res, ts
	}
	return res, nil
}

// hasDollarLevel: some level behind the first one begins with '$'.
func hasDollarLevel(t string) bool {
	return strings.Contains(t, "/$")
}

func hasEmpty(t string) bool {
	return strings.HasPrefix(t, "/") || strings.HasSuffix(t, "/") || strings.Contains(t, "//")
}

func sameResult(op Op, got, want result, errKnown bool) (bool, string) {
	if errKnown && got.err != want.err {
		return false, fmt.Sprintf("error=%v, specification says error=%v", got.err, want.err)
	}
	if got.err || want.err {
		return true, ""
	}
	switch op.K {
	case "sub":
		if got.qos != want.qos {
			return false, fmt.Sprintf("granted QoS %d, expected %d", got.qos, want.qos)
		}
	case "subs":
		if fmt.Sprint(got.pairs) != fmt.Sprint(want.pairs) {
			return false, fmt.Sprintf("subscribers (id, QoS) %v, expected %v", got.pairs, want.pairs)
		}
	case "retained":
		if fmt.Sprint(got.retKeys) != fmt.Sprint(want.retKeys) {
			return false, fmt.Sprintf("retained messages (topic|seq|size|qos) %v, expected %v", got.retKeys, want.retKeys)
		}
	}
	return true, ""
}

// Run executes a topics script.
func Run(script interface{}, cfg simrt.Config) *world.Outcome {
	sc := script.(*Script)
	out := &world.Outcome{Summary: map[string]interface{}{}}
	old := topics.MaxQosAllowed
	topics.MaxQosAllowed = sc.MaxQoS
	defer func() { topics.MaxQosAllowed = old }()
	if sc.Sweep {
		sweep(out)
		out.Res = &simrt.Result{Strategy: "sweep", Probes: map[string]int{"sweep": 1}, Faults: map[string]int{}, StateSigs: map[uint64]struct{}{}}
		out.Nontrivial = true
		return out
	}
	var calls []*call
	if cfg.MaxSteps == 0 {
		cfg.MaxSteps = 400000
	}
	concurrent := len(sc.Tasks) > 1
	res := simrt.Run(cfg, nil, func(s *simrt.Sim) {
		mt := topics.NewMemProvider()
		var ts []*simrt.Task
		for ti, ops := range sc.Tasks {
			ti, ops := ti, ops
			ts = append(ts, s.Go(fmt.Sprintf("caller%d", ti), false, func() {
				subs := make([]interface{}, 0, 8)
				qoss := make([]byte, 0, 8)
				for _, op := range ops {
					c := &call{op: op, task: ti}
					s.Yield(simrt.YHarness)
					c.inv = s.Stamp()
					c.got, c.retTopics = exec(mt, op, &subs, &qoss, concurrent)
					c.ret = s.Stamp()
					calls = append(calls, c)
				}
			}))
		}
		s.Quiesce()
		for _, t := range ts {
			if !t.Done() {
				k, _ := t.WaitingOn()
				out.Add("C06", "call-returns", "C06/call-blocks/"+k.String(), fmt.Sprintf("task %s never returned from a topic store call (parked on %s); held locks: %v", t.Name, k, s.HeldLocks()))
			}
		}
	})
	out.Res = res
	if res.Status == simrt.StatusCrash {
		out.Add("C06", "no-panic", "C06/panic", "a topic store call panicked: "+res.CrashMsg+"\n"+res.CrashStack)
		return out
	}
	if res.Status != simrt.StatusOK {
		out.Aborted = res.Status.String()
		return out
	}
	nops := 0
	for _, t := range sc.Tasks {
		nops += len(t)
	}
	out.Summary["tasks"] = len(sc.Tasks)
	out.Summary["ops"] = nops
	out.Summary["maxqos"] = sc.MaxQoS
	out.Nontrivial = nops > 2
	if !concurrent {
		checkSequential(sc, calls, out)
	} else {
		checkLinearizable(sc, calls, out)
	}
	return out
}

func checkSequential(sc *Script, calls []*call, out *world.Outcome) {
	st := state{}
	emptySeen, dollarSeen := false, false
	for i, c := range calls {
		if hasEmpty(c.op.Filter) {
			emptySeen = true
		}
		if hasDollarLevel(c.op.Filter) {
			dollarSeen = true
		}
		ns, want, errKnown := step(st, c.op, sc.MaxQoS)
		if ok, why := sameResult(c.op, c.got, want, errKnown); !ok {
			tag := ""
			if emptySeen {
				tag = "/empty-level"
			} else if dollarSeen {
				tag = "/dollar-level"
			}
			out.Add("C06", "matches-specification", "C06/sequential/"+c.op.K+tag, fmt.Sprintf("call %d %s(%q, sub %d, qos %d, size %d): %s; model state before the call: %s", i, c.op.K, c.op.Filter, c.op.Sub, c.op.QoS, c.op.Size, why, st.key()))
			return
		}
		st = ns
	}
}

type pin struct {
	op Op
}

func checkLinearizable(sc *Script, calls []*call, out *world.Outcome) {
	emptySeen, dollarSeen := false, false
	var ops []porcupine.Operation
	for _, c := range calls {
		if hasEmpty(c.op.Filter) {
			emptySeen = true
		}
		if hasDollarLevel(c.op.Filter) {
			dollarSeen = true
		}
		got := c.got
		if c.op.K == "retained" && !got.err {
			// the selection is judged, not the content (DESIGN §6 C06)
			got.retKeys = c.retTopics
		}
		ops = append(ops, porcupine.Operation{ClientId: c.task, Input: c.op, Call: c.inv, Output: got, Return: c.ret})
	}
	maxq := sc.MaxQoS
	model := porcupine.Model{
		Init: func() interface{} { return state{} },
		Step: func(sti, in, outv interface{}) (bool, interface{}) {
			st := sti.(state)
			op := in.(Op)
			got := outv.(result)
			ns, want, errKnown := step(st, op, maxq)
			if op.K == "retained" && !want.err {
				var ts []string
				for _, k := range want.retKeys {
					ts = append(ts, k[:strings.Index(k, "|")])
				}
				sort.Strings(ts)
				want.retKeys = ts
			}
			ok, _ := sameResult(op, got, want, errKnown)
			return ok, ns
		},
		Equal: func(a, b interface{}) bool { return a.(state).key() == b.(state).key() },
	}
	res := porcupine.CheckOperationsTimeout(model, ops, 20*time.Second)
	switch res {
	case porcupine.Ok:
		out.Summary["porcupine_ok"] = 1
	case porcupine.Unknown:
		out.Summary["porcupine_unknown"] = 1
	case porcupine.Illegal:
		out.Summary["porcupine_illegal"] = 1
		tag := ""
		if emptySeen {
			tag = "/empty-level"
		} else if dollarSeen {
			tag = "/dollar-level"
		}
		var b strings.Builder
		for _, c := range calls {
			fmt.Fprintf(&b, "[t%d %d-%d %s(%q s%d q%d n%d) -> err=%v q=%d %v %v] ", c.task, c.inv, c.ret, c.op.K, c.op.Filter, c.op.Sub, c.op.QoS, c.op.Size, c.got.err, c.got.qos, c.got.pairs, c.retTopics)
		}
		out.Add("C06", "linearizable", "C06/not-linearizable"+tag, "the concurrent history has no linearization against the specification model: "+b.String())
	}
}

var sweepAlpha = []string{"a", "b", "", "+", "#"}

func allStrings(alpha []string, maxLevels int) []string {
	var out []string
	var rec func(prefix string, depth int)
	rec = func(prefix string, depth int) {
		for _, l := range alpha {
			s := l
			if depth > 0 {
				s = prefix + "/" + l
			}
			out = append(out, s)
			if depth+1 < maxLevels {
				rec(s, depth+1)
			}
		}
	}
	rec("", 0)
	return out
}

// sweep checks every filter (valid or not) against every topic name of up to
// four levels over the alphabet {a, b, empty, +, #}.
func sweep(out *world.Outcome) {
	filters := allStrings(sweepAlpha, 4)
	names := allStrings([]string{"a", "b", ""}, 4)
	pairs, bad := 0, 0
	for _, f := range filters {
		if f == "" {
			continue
		}
		mt := topics.NewMemProvider()
		_, err := mt.Subscribe([]byte(f), 1, &subIDs[0])
		valid := refmqtt.ValidFilter(f)
		tag := ""
		if hasEmpty(f) {
			tag = "/empty-level"
		}
		if valid != (err == nil) {
			out.Add("C06", "filter-validity", fmt.Sprintf("C06/sweep/validity-valid%v%s", valid, tag), fmt.Sprintf("Subscribe(%q) error=%v but the filter is valid=%v", f, err, valid))
			bad++
			continue
		}
		if !valid {
			continue
		}
		for _, n := range names {
			if n == "" {
				continue
			}
			pairs++
			var subs []interface{}
			var qoss []byte
			err := mt.Subscribers([]byte(n), 1, &subs, &qoss)
			want := refmqtt.Match(f, n)
			got := err == nil && len(subs) > 0
			if got != want || len(subs) > 1 {
				t := tag
				if hasEmpty(n) {
					t = "/empty-level"
				}
				out.Add("C06", "match-relation", fmt.Sprintf("C06/sweep/match-want%v-got%v%s", want, got, t), fmt.Sprintf("filter %q, topic %q: store reports %d subscriber(s) (err %v), MQTT 4.7 says match=%v", f, n, len(subs), err, want))
				bad++
			}
			// the same relation selects retained messages
			rm := topics.NewMemProvider()
			m := message.NewPublishMessage()
			m.SetTopic([]byte(n))
			m.SetPayload([]byte("x"))
			m.SetRetain(true)
			if rm.Retain(m) == nil {
				var msgs []*message.PublishMessage
				err := rm.Retained([]byte(f), &msgs)
				gotR := err == nil && len(msgs) > 0
				if gotR != want || len(msgs) > 1 {
					t := tag
					if hasEmpty(n) {
						t = "/empty-level"
					}
					out.Add("C06", "match-relation", fmt.Sprintf("C06/sweep/retained-want%v-got%v%s", want, gotR, t), fmt.Sprintf("filter %q, retained topic %q: store returns %d message(s) (err %v), MQTT 4.7 says match=%v", f, n, len(msgs), err, want))
					bad++
				}
			}
		}
	}
	out.Summary["sweep_filters"] = len(filters)
	out.Summary["sweep_pairs"] = pairs
	out.Summary["sweep_disagreements"] = bad
}
