// Package all links every world into the worker.
package all

import (
	_ "verif/sim/world/ackw"
	_ "verif/sim/world/broker"
	_ "verif/sim/world/ring"
	_ "verif/sim/world/topicw"
)
