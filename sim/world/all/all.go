// Package all links every world into the worker and combines the two roles of
// C02 and C12 (broker world and client world) into one definition each.
package all

import (
	"encoding/json"

	_ "verif/sim/world/ackw"
	_ "verif/sim/world/broker"
	"verif/sim/world/clientw"
	_ "verif/sim/world/ring"
	_ "verif/sim/world/topicw"

	"verif/sim/simrt"
	"verif/sim/world"
)

// Dual is a script of a property that is explored in two worlds.
type Dual struct {
	World  string          `json:"world"`
	Script json.RawMessage `json:"script"`
	inner  interface{}
}

func combine(a, b *world.Def) *world.Def {
	pick := func(d *Dual) *world.Def {
		if d.World == b.World {
			return b
		}
		return a
	}
	load := func(d *Dual) interface{} {
		if d.inner == nil {
			d.inner = pick(d).NewScript()
			if err := json.Unmarshal(d.Script, d.inner); err != nil {
				panic(err)
			}
		}
		return d.inner
	}
	wrap := func(def *world.Def, s interface{}) *Dual {
		raw, _ := json.Marshal(s)
		return &Dual{World: def.World, Script: raw, inner: s}
	}
	n := *a
	n.World = a.World + "+" + b.World
	n.Gen = func(tier string, seed uint64, idx int) interface{} {
		if idx%2 == 0 {
			return wrap(a, a.Gen(tier, seed, idx/2))
		}
		return wrap(b, b.Gen(tier, seed, idx/2))
	}
	n.NewScript = func() interface{} { return &Dual{} }
	n.Run = func(script interface{}, cfg simrt.Config) *world.Outcome {
		d := script.(*Dual)
		o := pick(d).Run(load(d), cfg)
		if o.Summary != nil {
			o.Summary["world"] = d.World
		}
		return o
	}
	n.Shrink = func(script interface{}) []interface{} {
		d := script.(*Dual)
		def := pick(d)
		var out []interface{}
		if def.Shrink != nil {
			for _, s := range def.Shrink(load(d)) {
				out = append(out, wrap(def, s))
			}
		}
		return out
	}
	n.Rule = "two worlds, alternating by run index. " + a.World + " world: " + a.Rule + " | " + b.World + " world: " + b.Rule
	n.Real = append(append([]string{}, a.Real...), b.Real...)
	n.Stub = append(append([]string{}, a.Stub...), b.Stub...)
	n.QuickRuns = a.QuickRuns + b.QuickRuns
	n.ThoroughRuns = a.ThoroughRuns + b.ThoroughRuns
	return &n
}

// mix explores one property (C18: data races) over the workloads of several
// other properties' worlds; oracle violations of those worlds are side
// observations here, the deciding observation is the race detector's report.
func mix(prop string, parts []*world.Def) *world.Def {
	byWorld := func(d *Dual) *world.Def {
		for _, p := range parts {
			if p.Prop+"@"+p.World == d.World {
				return p
			}
		}
		return parts[0]
	}
	load := func(d *Dual) interface{} {
		if d.inner == nil {
			d.inner = byWorld(d).NewScript()
			if err := json.Unmarshal(d.Script, d.inner); err != nil {
				panic(err)
			}
		}
		return d.inner
	}
	n := &world.Def{Prop: prop, World: "mixed", Level: "exploration"}
	n.Gen = func(tier string, seed uint64, idx int) interface{} {
		p := parts[idx%len(parts)]
		s := p.Gen(tier, seed, idx/len(parts))
		raw, _ := json.Marshal(s)
		return &Dual{World: p.Prop + "@" + p.World, Script: raw, inner: s}
	}
	n.NewScript = func() interface{} { return &Dual{} }
	n.Run = func(script interface{}, cfg simrt.Config) *world.Outcome {
		d := script.(*Dual)
		o := byWorld(d).Run(load(d), cfg)
		if o.Summary != nil {
			o.Summary["workload"] = d.World
		}
		return o
	}
	n.Enumerate = func(tier string) []interface{} {
		var out []interface{}
		for _, p := range parts {
			if p.Enumerate == nil {
				continue
			}
			for _, s := range p.Enumerate(tier) {
				raw, _ := json.Marshal(s)
				out = append(out, &Dual{World: p.Prop + "@" + p.World, Script: raw, inner: s})
			}
		}
		return out
	}
	seen := map[string]bool{}
	for _, p := range parts {
		for _, r := range p.Real {
			if !seen[r] {
				seen[r] = true
				n.Real = append(n.Real, r)
			}
		}
		for _, r := range p.Stub {
			if !seen[r] {
				seen[r] = true
				n.Stub = append(n.Stub, r)
			}
		}
	}
	return n
}

func init() {
	cd := clientw.Defs()
	world.Register(cd["C20"])
	// C18 runs the workloads of the other properties under the race detector
	var parts []*world.Def
	for _, p := range []string{"C01", "C08", "C16", "C17", "C09", "C10", "C05", "C14", "C15", "C13", "C06"} {
		parts = append(parts, world.Lookup(p))
	}
	c18 := mix("C18", parts)
	c18.Rule = "workloads = the seeded scripts of the other worlds in rotation (broker: routing with in-process Publish/Subscribe, retained updates racing with subscriptions, teardown under delivery and Server.Close, fan-in, wills, session churn, attackers; ring; ack queue; topic store), plus the complete enumerations of those worlds (teardown grid, truncation points and short remaining lengths of every packet type), executed by a worker built with -race in which only the library (and the byte-copy helper of the simulated transport) is instrumented: baton hand-offs of the simulator create no happens-before edge, the shims perform the real sync/atomic operation next to the simulated one, so ThreadSanitizer sees exactly the library's own synchronisation under a seeded, replayable schedule. A violation is a race report whose two accesses are both in code of github.com/mdzio/go-mqtt. Non-trivial = the workload's own criterion; distinct = schedule hash."
	c18.QuickRuns, c18.ThoroughRuns = 6000, 500000
	c18.Assumptions = []string{
		"ThreadSanitizer reports a race only if both accesses occur in the run and are unordered by the library's own synchronisation (they need not be adjacent in time)",
		"sync.Cond, Mutex, RWMutex, WaitGroup, Once and sync/atomic are modelled by shims that execute the real primitive as well; channel close/receive on done channels is real",
		"the simulated transport does not add the happens-before edges that real socket I/O adds in the Go race detector (syscall-level acquire/release), so the check is stricter than go test -race over real sockets, in line with the Go memory model",
		"go-logging runs with level off (one atomic load per call, no mutex)",
	}
	world.Register(c18)
	for _, p := range []string{"C02", "C12"} {
		world.Replace(combine(world.Lookup(p), cd[p]))
	}
}
