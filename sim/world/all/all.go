// Package all links every world into the worker and combines the two roles of
// C02 and C12 (broker world and client world) into one definition each.
package all

import (
	"encoding/json"

	_ "verif/sim/world/ackw"
	_ "verif/sim/world/broker"
	"verif/sim/world/clientw"
	_ "verif/sim/world/ring"
	_ "verif/sim/world/topicw"

	"verif/sim/simrt"
	"verif/sim/world"
)

// Dual is a script of a property that is explored in two worlds.
type Dual struct {
	World  string          `json:"world"`
	Script json.RawMessage `json:"script"`
	inner  interface{}
}

func combine(a, b *world.Def) *world.Def {
	pick := func(d *Dual) *world.Def {
		if d.World == b.World {
			return b
		}
		return a
	}
	load := func(d *Dual) interface{} {
		if d.inner == nil {
			d.inner = pick(d).NewScript()
			if err := json.Unmarshal(d.Script, d.inner); err != nil {
				panic(err)
			}
		}
		return d.inner
	}
	wrap := func(def *world.Def, s interface{}) *Dual {
		raw, _ := json.Marshal(s)
		return &Dual{World: def.World, Script: raw, inner: s}
	}
	n := *a
	n.World = a.World + "+" + b.World
	n.Gen = func(tier string, seed uint64, idx int) interface{} {
		if idx%2 == 0 {
			return wrap(a, a.Gen(tier, seed, idx/2))
		}
		return wrap(b, b.Gen(tier, seed, idx/2))
	}
	n.NewScript = func() interface{} { return &Dual{} }
	n.Run = func(script interface{}, cfg simrt.Config) *world.Outcome {
		d := script.(*Dual)
		o := pick(d).Run(load(d), cfg)
		if o.Summary != nil {
			o.Summary["world"] = d.World
		}
		return o
	}
	n.Shrink = func(script interface{}) []interface{} {
		d := script.(*Dual)
		def := pick(d)
		var out []interface{}
		if def.Shrink != nil {
			for _, s := range def.Shrink(load(d)) {
				out = append(out, wrap(def, s))
			}
		}
		return out
	}
	n.Rule = "two worlds, alternating by run index. " + a.World + " world: " + a.Rule + " | " + b.World + " world: " + b.Rule
	n.Real = append(append([]string{}, a.Real...), b.Real...)
	n.Stub = append(append([]string{}, a.Stub...), b.Stub...)
	n.QuickRuns = a.QuickRuns + b.QuickRuns
	n.ThoroughRuns = a.ThoroughRuns + b.ThoroughRuns
	return &n
}

func init() {
	cd := clientw.Defs()
	world.Register(cd["C20"])
	for _, p := range []string{"C02", "C12"} {
		world.Replace(combine(world.Lookup(p), cd[p]))
	}
}
