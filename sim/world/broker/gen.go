package broker

import (
	"fmt"

	"verif/sim/refmqtt"

	"verif/sim/simrt"
	"verif/sim/world"
)

// g is a script generator state.
type g struct {
	r       *simrt.Rand
	sc      *Script
	seq     []int // next message sequence per client
	pid     []int // next packet id per client
	inSeq   int
	levels  []string // topic-name level alphabet
	flevels []string // filter level alphabet
	emptyN  int
	willN   int
	tier    string
	force   []int // forced values for pick (enumerations)
	flood   bool  // witness profile: the publisher floods a stalled attacker
}

func newGen(seed uint64, prop string, idx int, tier string) *g {
	return &g{r: simrt.NewRand(world.RunSeed(seed, prop+"/script", idx)), sc: &Script{}, tier: tier}
}

// pick returns the next forced choice if there is one, a random one otherwise.
func (x *g) pick(n int) int {
	if len(x.force) > 0 {
		v := x.force[0] % n
		x.force = x.force[1:]
		return v
	}
	return x.r.Intn(n)
}

func (x *g) pickP(num, den int) bool {
	if len(x.force) > 0 {
		v := x.force[0]
		x.force = x.force[1:]
		return v != 0
	}
	return x.r.Bool(num, den)
}

func (x *g) knobs() {
	r := x.r
	k := &x.sc.Knobs
	switch r.Intn(10) {
	case 0:
		k.BufSize = 65536
	case 1:
		k.BufSize = 262144
	case 2:
		// below the minimum: the library rounds up to two read blocks
		k.BufSize = 16384
		k.BufCfg = []int{1, 4096, 8192, 8193, 12000}[r.Intn(5)]
	default:
		k.BufSize = 16384
	}
	k.LinkCap = []int{64, 512, 4096, 16384, 65536, 65536}[r.Intn(6)]
	k.MaxQoS = 2
	switch r.Intn(3) {
	case 0:
		k.PIDStart = uint64(r.Intn(1000))
	case 1:
		k.PIDStart = uint64(0xfff0 + r.Intn(0x30))
	default:
		k.PIDStart = uint64(r.Intn(1 << 20))
	}
	k.SegNum, k.SegDen = []int{0, 1, 1, 3}[r.Intn(4)], 4
	// temporary Accept errors (EMFILE, ECONNABORTED ...): the accept loop backs
	// off in virtual time and must go on serving
	switch r.Intn(12) {
	case 0:
		k.AcceptErrs = 1 + r.Intn(3)
	case 1:
		k.AcceptErrNum = []int{2, 4, 8}[r.Intn(3)]
	}
}

func (x *g) alphabet(allowEmpty bool) {
	r := x.r
	x.levels = []string{"a", "b"}
	if allowEmpty {
		x.levels = append(x.levels, "")
	}
	if r.Bool(3, 10) {
		// ("$t": a '$' is special only as the first character of a topic,
		// topic() and filter() never put it on the first level)
		x.levels = append(x.levels, "c", "dd", "sensor", "x y", "$t")
	}
	x.flevels = append(append([]string{}, x.levels...), "+", "#")
}

func (x *g) topic() string {
	r := x.r
	n := 1 + r.Intn(4)
	t := ""
	for i := 0; i < n; i++ {
		if i > 0 {
			t += "/"
		}
		l := x.levels[r.Intn(len(x.levels))]
		if i == 0 && l == "$t" {
			l = "a"
		}
		t += l
	}
	if t == "" {
		t = x.levels[0]
	}
	return t
}

func (x *g) filter() string {
	r := x.r
	n := 1 + r.Intn(4)
	f := ""
	for i := 0; i < n; i++ {
		if i > 0 {
			f += "/"
		}
		l := x.flevels[r.Intn(len(x.flevels))]
		if l == "#" && i != n-1 {
			l = "+"
		}
		if i == 0 && l == "$t" {
			l = "a"
		}
		f += l
	}
	if f == "" {
		f = "#"
	}
	return f
}

func (x *g) size() int {
	r := x.r
	limit := x.sc.Knobs.BufSize - 8192 - 64
	switch r.Intn(12) {
	case 0:
		return limit - r.Intn(200) // close to the packet limit
	case 1:
		return 1000 + r.Intn(7000)
	case 2, 3:
		return 64 + r.Intn(1000)
	default:
		return 8 + r.Intn(56)
	}
}

func (x *g) nextPID(ci int) uint16 {
	x.pid[ci]++
	if x.pid[ci] > 65535 {
		x.pid[ci] = 1
	}
	return uint16(x.pid[ci])
}

func (x *g) connect(ci int, clean bool) Op {
	return Op{K: "connect", CID: fmt.Sprintf("cl%d", ci), Clean: clean, KA: 600}
}

func (x *g) pub(ci int, qosMax int) Op {
	r := x.r
	x.seq[ci]++
	op := Op{K: "pub", Topic: x.topic(), QoS: byte(r.Intn(qosMax + 1)), Size: x.size(), Seq: x.seq[ci]}
	if op.QoS > 0 {
		op.PID = x.nextPID(ci)
	}
	if r.Bool(1, 12) {
		op.Size = x.boundarySize(op.Topic, op.QoS)
	}
	if op.QoS > 0 && r.Bool(1, 10) {
		// the first copy the broker sees is already a retransmission (the
		// original was lost with an earlier connection): the flag must not
		// travel on, neither with forwards nor with a retained copy
		op.Dup = true
	}
	return op
}

// boundarySize returns a payload size that puts the remaining length of the
// PUBLISH packet - as sent, or as re-encoded for a QoS 0 subscriber (no packet
// identifier) - exactly onto a boundary of the variable-length encoding
// (127|128, and with a large enough ring 16383|16384).
func (x *g) boundarySize(topic string, qos byte) int {
	r := x.r
	targets := []int{127, 128}
	if x.sc.Knobs.BufSize-8192-64 >= 16384+8 {
		targets = append(targets, 16383, 16384, 16383, 16384)
	}
	t := targets[r.Intn(len(targets))]
	n := t - 2 - len(topic)
	if qos > 0 && r.Bool(1, 2) {
		n -= 2 // the boundary is hit by the packet as sent; otherwise by its QoS 0 form
	}
	if n < 8 {
		n = 8
	}
	return n
}

func (x *g) sub(ci int, maxFilters int) Op {
	r := x.r
	n := 1 + r.Intn(maxFilters)
	op := Op{K: "sub", PID: x.nextPID(ci)}
	for i := 0; i < n; i++ {
		op.Filters = append(op.Filters, x.filter())
		op.QoSs = append(op.QoSs, byte(r.Intn(3)))
	}
	return op
}

// genRouting is the C01/C17 profile: several clients and in-process
// subscribers subscribing, unsubscribing, publishing and leaving.
func genRouting(prop string) func(tier string, seed uint64, idx int) interface{} {
	return func(tier string, seed uint64, idx int) interface{} {
		x := newGen(seed, prop, idx, tier)
		r := x.r
		x.sc.Profile = "routing"
		x.knobs()
		x.alphabet(r.Bool(1, 2))
		nc := 2 + r.Intn(4)
		x.seq = make([]int, nc)
		x.pid = make([]int, nc)
		for ci := 0; ci < nc; ci++ {
			x.pid[ci] = r.Intn(3) * 21000
		}
		stallers := 0
		for ci := 0; ci < nc; ci++ {
			cl := Client{}
			cl.Ops = append(cl.Ops, x.connect(ci, true))
			nops := 2 + r.Intn(10)
			var mine []string
			for i := 0; i < nops; i++ {
				switch k := r.Intn(20); {
				case k < 5:
					op := x.sub(ci, 3)
					mine = append(mine, op.Filters...)
					cl.Ops = append(cl.Ops, op)
				case k < 7 && len(mine) > 0:
					f := mine[r.Intn(len(mine))]
					cl.Ops = append(cl.Ops, Op{K: "unsub", PID: x.nextPID(ci), Filters: []string{f}})
				case k < 15:
					op := x.pub(ci, 2)
					if r.Bool(1, 5) {
						op.NoWait = op.QoS < 2
					}
					if r.Bool(1, 25) {
						op.Size = 0 // empty payload (attributed by its topic)
						x.emptyN++
						op.Topic = fmt.Sprintf("%s/e%d", x.levels[0], x.emptyN)
					}
					if r.Bool(1, 12) {
						op.Retain = true
					}
					cl.Ops = append(cl.Ops, op)
				case k < 17:
					cl.Ops = append(cl.Ops, Op{K: "barrier"})
				case k < 18:
					cl.Ops = append(cl.Ops, Op{K: "ping"})
				case k < 19 && stallers == 0 && x.sc.Knobs.LinkCap <= 4096:
					stallers++
					cl.Ops = append(cl.Ops, Op{K: "stall"})
				default:
					if r.Bool(1, 3) {
						// leave and come back
						cl.Ops = append(cl.Ops, Op{K: []string{"disc", "close", "rst"}[r.Intn(3)]})
						cl.Ops = append(cl.Ops, x.connect(ci, true))
						mine = nil
					}
				}
			}
			x.sc.Clients = append(x.sc.Clients, cl)
		}
		if r.Bool(1, 2) {
			ncb := 1 + r.Intn(2)
			n := 1 + r.Intn(6)
			var subs [][2]interface{}
			for i := 0; i < n; i++ {
				switch k := r.Intn(10); {
				case k < 4:
					op := InprocOp{K: "sub", CB: r.Intn(ncb), Filter: x.filter(), QoS: byte(r.Intn(3))}
					subs = append(subs, [2]interface{}{op.CB, op.Filter})
					x.sc.Inproc = append(x.sc.Inproc, op)
				case k < 5 && len(subs) > 0:
					s := subs[r.Intn(len(subs))]
					x.sc.Inproc = append(x.sc.Inproc, InprocOp{K: "unsub", CB: s[0].(int), Filter: s[1].(string)})
				case k < 8:
					x.inSeq++
					x.sc.Inproc = append(x.sc.Inproc, InprocOp{K: "pub", Topic: x.topic(), QoS: byte(r.Intn(3)), Size: x.size(), Seq: x.inSeq})
				default:
					x.sc.Inproc = append(x.sc.Inproc, InprocOp{K: "barrier"})
				}
			}
		}
		return x.sc
	}
}

// shrinkScript proposes structurally smaller scripts.
func shrinkScript(script interface{}) []interface{} {
	sc := script.(*Script)
	var out []interface{}
	clone := func() *Script {
		n := *sc
		n.Clients = make([]Client, len(sc.Clients))
		for i, c := range sc.Clients {
			n.Clients[i] = c
			n.Clients[i].Ops = append([]Op{}, c.Ops...)
		}
		n.Inproc = append([]InprocOp{}, sc.Inproc...)
		return &n
	}
	// drop a whole client (keep indices stable by emptying it)
	for i, c := range sc.Clients {
		if len(c.Ops) > 0 {
			n := clone()
			n.Clients[i].Ops = nil
			out = append(out, n)
		}
	}
	if len(sc.Inproc) > 0 {
		n := clone()
		n.Inproc = nil
		out = append(out, n)
	}
	// drop the tail of a client's ops, then single ops
	for i, c := range sc.Clients {
		if len(c.Ops) > 2 {
			n := clone()
			n.Clients[i].Ops = n.Clients[i].Ops[:len(c.Ops)/2+1]
			out = append(out, n)
		}
	}
	for i, c := range sc.Clients {
		for j := len(c.Ops) - 1; j >= 1; j-- {
			if len(out) > 150 {
				break
			}
			n := clone()
			n.Clients[i].Ops = append(n.Clients[i].Ops[:j], n.Clients[i].Ops[j+1:]...)
			out = append(out, n)
		}
	}
	for j := len(sc.Inproc) - 1; j >= 0 && len(out) < 200; j-- {
		n := clone()
		n.Inproc = append(n.Inproc[:j], n.Inproc[j+1:]...)
		out = append(out, n)
	}
	// simplify ops: smaller payloads, fewer filters
	for i, c := range sc.Clients {
		for j, op := range c.Ops {
			if len(out) > 260 {
				break
			}
			if op.K == "pub" && op.Size > 16 {
				n := clone()
				n.Clients[i].Ops[j].Size = 8
				out = append(out, n)
			}
			if (op.K == "sub" || op.K == "unsub") && len(op.Filters) > 1 {
				for f := range op.Filters {
					n := clone()
					o := &n.Clients[i].Ops[j]
					o.Filters = append(append([]string{}, op.Filters[:f]...), op.Filters[f+1:]...)
					if op.K == "sub" {
						o.QoSs = append(append([]byte{}, op.QoSs[:f]...), op.QoSs[f+1:]...)
					}
					out = append(out, n)
				}
			}
		}
	}
	// plain knobs
	if sc.Knobs.SegNum != 0 {
		n := clone()
		n.Knobs.SegNum = 0
		out = append(out, n)
	}
	if sc.Knobs.LinkCap != 65536 {
		n := clone()
		n.Knobs.LinkCap = 65536
		out = append(out, n)
	}
	if sc.Knobs.PIDStart != 0 {
		n := clone()
		n.Knobs.PIDStart = 0
		out = append(out, n)
	}
	return out
}

var realBroker = []string{"service.Server (ListenAndServe, handleConnection, getSession, Publish/Subscribe/Unsubscribe, Close)", "service.service (receiver, processor, sender goroutines, all process* handlers, stop)", "service.buffer", "sessions (Session, Ackqueue, MemProvider)", "topics (MemTopics)", "message (all codecs)", "auth"}
var stubBroker = []string{"sync, sync/atomic, time, net (simulator models; simulated TCP-like transport)", "MQTT clients (scripted raw peers over the independent reference codec refmqtt)", "go-logging (real code, level off)"}
var notExec = "not executed: service/websocket.go, ListenAndServeTLS/ConnectTLS (differ from the TCP paths only in the listen/dial call)"
var assumeBroker = []string{
	"MQTT runs over an ordered, lossless byte stream: bytes inside one connection are never lost, duplicated or reordered (faults are segmentation, back-pressure, stalls, cuts, resets, half-open peers)",
	"sync.Cond wake-up is FIFO and never spurious; RWMutex prefers writers; Mutex hand-off may go to any waiter (simulator models of Go's primitives)",
	"tasks switch only at sync/atomic/time/net operations and harness yield points; interleavings inside a region without any such operation are not explored (C18 covers unsynchronised regions)",
	"acceptance and subscription windows are bounded by wire stamps (must / may / must-not rule of DESIGN.md §5.2): an obligation exists only when the certain window of the subscription covers the whole window in which the broker may have accepted the publish",
	notExec,
}

// concretize turns a valid filter into a topic name it matches.
func (x *g) concretize(f string) string {
	r := x.r
	lit := func() string {
		for {
			if l := x.levels[r.Intn(len(x.levels))]; l != "" {
				return l
			}
		}
	}
	var out []string
	for _, l := range splitLevels(f) {
		switch l {
		case "+":
			out = append(out, lit())
		case "#":
			for i := r.Intn(3); i > 0; i-- {
				out = append(out, lit())
			}
		default:
			out = append(out, l)
		}
	}
	t := ""
	for i, l := range out {
		if i > 0 {
			t += "/"
		}
		t += l
	}
	if t == "" {
		t = lit()
	}
	return t
}

func splitLevels(t string) []string {
	var out []string
	start := 0
	for i := 0; i < len(t); i++ {
		if t[i] == '/' {
			out = append(out, t[start:i])
			start = i + 1
		}
	}
	return append(out, t[start:])
}

var invalidFilters = []string{"a/#/b", "a+", "#x", "+x", "a/b#", "a/+b", "#/a", "b/#/"}

// genSuback is the C07 profile: SUBSCRIBE / UNSUBSCRIBE packets with 1..12
// filters (valid, invalid, repeated, overlapping), requested QoS 0..2 and out
// of range, a server maximum below 2, and a publisher probing every filter
// before, between and after.
func genSuback(prop string) func(tier string, seed uint64, idx int) interface{} {
	return func(tier string, seed uint64, idx int) interface{} {
		x := newGen(seed, prop, idx, tier)
		r := x.r
		x.sc.Profile = "suback"
		x.knobs()
		x.sc.Knobs.MaxQoS = byte([]int{2, 2, 1, 0}[r.Intn(4)])
		x.sc.Knobs.LinkCap = 65536
		x.alphabet(r.Bool(1, 4))
		nsub := 1 + r.Intn(2)
		nc := nsub + 1
		x.seq = make([]int, nc)
		x.pid = make([]int, nc)
		var pool []string // valid filters in use, for the publisher
		for ci := 0; ci < nsub; ci++ {
			cl := Client{}
			cl.Ops = append(cl.Ops, x.connect(ci, true))
			var mine []string
			nops := 1 + r.Intn(5)
			for i := 0; i < nops; i++ {
				switch k := r.Intn(10); {
				case k < 6:
					n := 1 + r.Intn(3)
					if r.Bool(1, 3) {
						n = 4 + r.Intn(9)
					}
					big := r.Bool(1, 12)
					if big {
						// enough filters to push the SUBACK's remaining length (2 + n)
						// across the one-byte limit of its encoding
						n = []int{124, 125, 126, 127, 128, 200}[r.Intn(6)]
					}
					op := Op{K: "sub", PID: x.nextPID(ci)}
					for j := 0; j < n; j++ {
						f := x.filter()
						if big && j%4 != 0 {
							f = fmt.Sprintf("big%d/%d", ci, j)
						}
						switch r.Intn(12) {
						case 0:
							f = invalidFilters[r.Intn(len(invalidFilters))]
						case 1, 2:
							if len(mine) > 0 {
								f = mine[r.Intn(len(mine))] // repeated
							}
						}
						q := byte(r.Intn(3))
						if r.Bool(1, 15) {
							q = []byte{3, 0x7f, 0xff, 0x80}[r.Intn(4)]
						}
						op.Filters = append(op.Filters, f)
						op.QoSs = append(op.QoSs, q)
						mine = append(mine, f)
						pool = append(pool, f)
					}
					cl.Ops = append(cl.Ops, op)
				case k < 8 && len(mine) > 0:
					n := 1 + r.Intn(3)
					if r.Bool(1, 3) {
						n = 4 + r.Intn(9)
					}
					op := Op{K: "unsub", PID: x.nextPID(ci)}
					for j := 0; j < n; j++ {
						f := mine[r.Intn(len(mine))]
						if r.Bool(1, 10) {
							f = x.filter() // never subscribed
						}
						op.Filters = append(op.Filters, f)
					}
					cl.Ops = append(cl.Ops, op)
				default:
					cl.Ops = append(cl.Ops, Op{K: "barrier"})
				}
				if r.Bool(1, 2) {
					cl.Ops = append(cl.Ops, Op{K: "barrier"})
				}
			}
			cl.Ops = append(cl.Ops, Op{K: "barrier"}, Op{K: "ping"})
			x.sc.Clients = append(x.sc.Clients, cl)
		}
		// publisher
		pi := nc - 1
		cl := Client{}
		cl.Ops = append(cl.Ops, x.connect(pi, true))
		rounds := 2 + r.Intn(5)
		for i := 0; i < rounds; i++ {
			np := 1 + r.Intn(4)
			for j := 0; j < np; j++ {
				x.seq[pi]++
				t := x.topic()
				if len(pool) > 0 && r.Bool(4, 5) {
					f := pool[r.Intn(len(pool))]
					if validFilterLocal(f) {
						t = x.concretize(f)
					}
				}
				op := Op{K: "pub", Topic: t, QoS: byte(r.Intn(3)), Size: 8 + r.Intn(40), Seq: x.seq[pi]}
				if op.QoS > 0 {
					op.PID = x.nextPID(pi)
				}
				cl.Ops = append(cl.Ops, op)
			}
			cl.Ops = append(cl.Ops, Op{K: "ping"}, Op{K: "barrier"})
		}
		x.sc.Clients = append(x.sc.Clients, cl)
		return x.sc
	}
}

func validFilterLocal(f string) bool {
	for _, bad := range invalidFilters {
		if f == bad {
			return false
		}
	}
	return f != ""
}

// genRetained is the C08 profile.
func genRetained(prop string) func(tier string, seed uint64, idx int) interface{} {
	return func(tier string, seed uint64, idx int) interface{} {
		x := newGen(seed, prop, idx, tier)
		r := x.r
		x.sc.Profile = "retained"
		x.knobs()
		x.sc.Knobs.MaxQoS = byte([]int{2, 2, 2, 1, 0}[r.Intn(5)])
		x.alphabet(r.Bool(1, 5))
		// a small set of topics so that updates and clears hit the same ones
		nt := 1 + r.Intn(8)
		var ts []string
		for i := 0; i < nt; i++ {
			ts = append(ts, x.topic())
		}
		npub := 1 + r.Intn(2)
		nsub := 1 + r.Intn(3)
		nc := npub + nsub
		x.seq = make([]int, nc)
		x.pid = make([]int, nc)
		bulk := r.Bool(1, 2)
		for ci := 0; ci < npub; ci++ {
			cl := Client{}
			cl.Ops = append(cl.Ops, x.connect(ci, true))
			n := 2 + r.Intn(8)
			for i := 0; i < n; i++ {
				x.seq[ci]++
				op := Op{K: "pub", Topic: ts[r.Intn(len(ts))], QoS: byte(r.Intn(3)), Seq: x.seq[ci]}
				switch k := r.Intn(10); {
				case k < 6:
					op.Retain = true
					op.Size = x.size()
				case k < 8:
					op.Retain = true
					op.Size = 0 // clears
				default:
					op.Size = 8 + r.Intn(100)
				}
				if op.QoS > 0 {
					op.PID = x.nextPID(ci)
					// (a tenth of the first copies are already retransmissions: the
					// DUP flag is not part of what is retained)
					op.Dup = r.Bool(1, 10)
				}
				if op.QoS < 2 && r.Bool(1, 4) {
					op.NoWait = true
				}
				cl.Ops = append(cl.Ops, op)
				if bulk && r.Bool(1, 3) {
					// unrelated traffic that overwrites the publisher's rings
					total := 0
					for total < x.sc.Knobs.BufSize+4096 && total < 80000 {
						x.seq[ci]++
						sz := 3000 + r.Intn(4000)
						cl.Ops = append(cl.Ops, Op{K: "pub", Topic: "z/bulk", Size: sz, Seq: x.seq[ci], NoWait: true})
						total += sz
					}
				}
				if r.Bool(1, 3) {
					cl.Ops = append(cl.Ops, Op{K: "barrier"})
				}
				if r.Bool(1, 6) {
					cl.Ops = append(cl.Ops, Op{K: "ping"})
				}
			}
			cl.Ops = append(cl.Ops, Op{K: "ping"}, Op{K: "barrier"})
			x.sc.Clients = append(x.sc.Clients, cl)
		}
		for ci := npub; ci < nc; ci++ {
			cl := Client{}
			cl.Ops = append(cl.Ops, x.connect(ci, true))
			n := 1 + r.Intn(5)
			for i := 0; i < n; i++ {
				if r.Bool(1, 2) {
					cl.Ops = append(cl.Ops, Op{K: "barrier"})
				}
				op := Op{K: "sub", PID: x.nextPID(ci)}
				nf := 1 + r.Intn(3)
				for j := 0; j < nf; j++ {
					f := ts[r.Intn(len(ts))]
					switch r.Intn(4) {
					case 0:
						f = x.filter()
					case 1:
						f = "#"
					}
					op.Filters = append(op.Filters, f)
					op.QoSs = append(op.QoSs, byte(r.Intn(3)))
				}
				cl.Ops = append(cl.Ops, op)
				if r.Bool(1, 4) {
					cl.Ops = append(cl.Ops, Op{K: "unsub", PID: x.nextPID(ci), Filters: []string{op.Filters[0]}})
				}
			}
			cl.Ops = append(cl.Ops, Op{K: "ping"})
			x.sc.Clients = append(x.sc.Clients, cl)
		}
		if r.Bool(1, 3) {
			n := 1 + r.Intn(4)
			for i := 0; i < n; i++ {
				switch r.Intn(3) {
				case 0:
					x.inSeq++
					sz := x.size()
					if r.Bool(1, 4) {
						sz = 0
					}
					x.sc.Inproc = append(x.sc.Inproc, InprocOp{K: "pub", Topic: ts[r.Intn(len(ts))], QoS: byte(r.Intn(3)), Retain: true, Size: sz, Seq: x.inSeq})
				case 1:
					f := ts[r.Intn(len(ts))]
					if r.Bool(1, 2) {
						f = "#"
					}
					x.sc.Inproc = append(x.sc.Inproc, InprocOp{K: "sub", CB: 0, Filter: f, QoS: byte(r.Intn(3))})
				default:
					x.sc.Inproc = append(x.sc.Inproc, InprocOp{K: "barrier"})
				}
			}
		}
		return x.sc
	}
}

// genReceiver is the C02 profile (broker role): a scripted publisher
// interleaves PUBLISH q1/q2, DUP repeats, PUBREL, repeated PUBREL, PUBREL for
// unknown ids and bulk QoS 0 traffic over a few packet identifiers; a witness
// subscribes to everything at QoS 2.
func genReceiver(prop string) func(tier string, seed uint64, idx int) interface{} {
	return func(tier string, seed uint64, idx int) interface{} {
		x := newGen(seed, prop, idx, tier)
		r := x.r
		x.sc.Profile = "receiver"
		x.knobs()
		x.sc.Knobs.LinkCap = 65536
		x.alphabet(false)
		x.seq = make([]int, 3)
		x.pid = make([]int, 3)
		// witness
		w := Client{Role: "witness"}
		w.Ops = append(w.Ops, x.connect(0, true), Op{K: "sub", PID: 1, Filters: []string{"#"}, QoSs: []byte{byte([]int{2, 2, 1, 0}[r.Intn(4)])}}, Op{K: "barrier"})
		x.sc.Clients = append(x.sc.Clients, w)
		// publisher
		cl := Client{}
		cl.Ops = append(cl.Ops, x.connect(1, true), Op{K: "barrier"})
		nid := 1 + r.Intn(4)
		ids := make([]uint16, nid)
		for i := range ids {
			ids[i] = uint16(1 + r.Intn(65535))
		}
		type ex struct {
			op   Op
			open bool
		}
		open := map[uint16]*ex{}
		var order []uint16 // open exchanges in the order of their PUBLISH
		inOrder := r.Bool(4, 5)
		// retained QoS 2 publishes with a subscriber that arrives at some point
		// of the publisher's script: the message must not reach it before the PUBREL
		retainQ2 := r.Bool(1, 4)
		var lateCl *Client
		n := 3 + r.Intn(14)
		bulk := r.Bool(1, 2)
		for i := 0; i < n; i++ {
			id := ids[r.Intn(nid)]
			if inOrder && len(order) > 0 && r.Bool(1, 2) {
				id = order[0] // conforming senders release the oldest exchange first
			}
			e := open[id]
			if inOrder && e != nil && order[0] != id {
				e = nil
				id = order[0]
				e = open[id]
			}
			switch k := r.Intn(12); {
			case k < 3 && e == nil: // QoS 1, maybe with DUP repeats
				x.seq[1]++
				op := Op{K: "pub", Topic: x.topic(), QoS: 1, PID: id, Size: x.size(), Seq: x.seq[1], NoWait: r.Bool(1, 2)}
				// (the first copy the broker sees may already be a retransmission:
				// the original was lost with an earlier connection)
				op.Dup = r.Bool(1, 6)
				cl.Ops = append(cl.Ops, op)
				for r.Bool(1, 4) {
					d := op
					d.Dup = true
					cl.Ops = append(cl.Ops, d)
				}
			case k < 6 && e == nil: // open a QoS 2 exchange
				x.seq[1]++
				op := Op{K: "pub", Topic: x.topic(), QoS: 2, PID: id, Size: x.size(), Seq: x.seq[1], NoRel: true, NoWait: r.Bool(1, 2)}
				op.Dup = r.Bool(1, 6)
				op.Retain = retainQ2 && r.Bool(2, 3)
				cl.Ops = append(cl.Ops, op)
				open[id] = &ex{op: op, open: true}
				order = append(order, id)
			case k < 8 && e != nil: // DUP repeat before the release
				d := e.op
				d.Dup = true
				d.NoWait = r.Bool(1, 2)
				cl.Ops = append(cl.Ops, d)
			case k < 10 && e != nil: // release
				cl.Ops = append(cl.Ops, Op{K: "pubrel", PID: id, NoWait: r.Bool(1, 3)})
				for r.Bool(1, 4) {
					cl.Ops = append(cl.Ops, Op{K: "pubrel", PID: id, NoWait: r.Bool(1, 2)})
				}
				delete(open, id)
				for k, o := range order {
					if o == id {
						order = append(order[:k], order[k+1:]...)
						break
					}
				}
			case k < 11: // PUBREL for an identifier that is not in flight
				if e == nil {
					cl.Ops = append(cl.Ops, Op{K: "pubrel", PID: id, NoWait: r.Bool(1, 2)})
				}
			default:
				if r.Bool(1, 2) {
					cl.Ops = append(cl.Ops, Op{K: "ping"})
				}
			}
			if bulk && r.Bool(1, 3) {
				total := 0
				for total < 2*x.sc.Knobs.BufSize && total < 70000 {
					x.seq[1]++
					sz := 3000 + r.Intn(4500)
					cl.Ops = append(cl.Ops, Op{K: "pub", Topic: "z/bulk", Size: sz, Seq: x.seq[1], NoWait: true})
					total += sz
				}
			}
		}
		if retainQ2 {
			late := Client{}
			late.Ops = append(late.Ops, x.connect(2, true), Op{K: "barrier"})
			for i := r.Intn(8); i > 0; i-- {
				late.Ops = append(late.Ops, Op{K: "ping"})
			}
			late.Ops = append(late.Ops, Op{K: "sub", PID: 7, Filters: []string{"#"}, QoSs: []byte{byte(r.Intn(3))}}, Op{K: "ping"}, Op{K: "barrier"})
			lateCl = &late
		}
		// release what is still open in most runs (oldest first)
		released := true
		for _, id := range order {
			if !r.Bool(3, 4) {
				released = false
				break
			}
			cl.Ops = append(cl.Ops, Op{K: "pubrel", PID: id})
		}
		if released && r.Bool(1, 4) {
			// pipelined QoS 2: a few complete exchanges, then more PUBLISH
			// packets in flight than the 16 slots of the receiver's queue,
			// released in order
			next := uint16(20000 + r.Intn(20000))
			for i := 1 + r.Intn(6); i > 0; i-- {
				x.seq[1]++
				next++
				cl.Ops = append(cl.Ops, Op{K: "pub", Topic: x.topic(), QoS: 2, PID: next, Size: 8 + r.Intn(60), Seq: x.seq[1]})
			}
			var ids []uint16
			for i := 17 + r.Intn(10); i > 0; i-- {
				x.seq[1]++
				next++
				ids = append(ids, next)
				cl.Ops = append(cl.Ops, Op{K: "pub", Topic: x.topic(), QoS: 2, PID: next, Size: 8 + r.Intn(60), Seq: x.seq[1], NoRel: true, NoWait: r.Bool(1, 2)})
			}
			// release a prefix, make sure it has been dealt with, and in half of
			// the runs release the rest afterwards
			cut := r.Intn(len(ids) + 1)
			for _, id := range ids[:cut] {
				cl.Ops = append(cl.Ops, Op{K: "pubrel", PID: id, NoWait: r.Bool(1, 3)})
			}
			cl.Ops = append(cl.Ops, Op{K: "ping"})
			if r.Bool(1, 2) {
				for _, id := range ids[cut:] {
					cl.Ops = append(cl.Ops, Op{K: "pubrel", PID: id, NoWait: r.Bool(1, 3)})
				}
			}
		}
		if released && r.Bool(1, 4) {
			// a burst written in one go, then FIN while still reading: what the
			// broker has received it must still answer and hand on
			for i := 3 + r.Intn(12); i > 0; i-- {
				x.seq[1]++
				op := Op{K: "pub", Topic: x.topic(), QoS: byte(r.Intn(2)), Size: 8 + r.Intn(300), Seq: x.seq[1], NoWait: true}
				if op.QoS > 0 {
					op.PID = uint16(50000 + x.seq[1])
				}
				cl.Ops = append(cl.Ops, op)
			}
			cl.Ops = append(cl.Ops, Op{K: "shutwr"}, Op{K: "waitdead"}, Op{K: "barrier"})
			x.sc.Clients = append(x.sc.Clients, cl)
			if lateCl != nil {
				x.sc.Clients = append(x.sc.Clients, *lateCl)
			}
			return x.sc
		}
		cl.Ops = append(cl.Ops, Op{K: "ping"}, Op{K: "barrier"})
		x.sc.Clients = append(x.sc.Clients, cl)
		if lateCl != nil {
			x.sc.Clients = append(x.sc.Clients, *lateCl)
		}
		return x.sc
	}
}

// garbage returns bytes no MQTT decoder accepts after a CONNECT.
func (x *g) garbage() []byte {
	r := x.r
	switch r.Intn(10) {
	case 0:
		return []byte{0xf0, 0x00} // reserved packet type 15
	case 1:
		return []byte{0x00, 0x00} // reserved packet type 0
	case 2:
		return []byte{0x30, 0xff, 0xff, 0xff, 0xff, 0x01} // remaining length with 5 bytes
	case 3:
		// DISCONNECT that is not one: non-zero remaining length
		n := 1 + r.Intn(8)
		b := []byte{0xe0, byte(n)}
		for i := 0; i < n; i++ {
			b = append(b, byte(r.Intn(256)))
		}
		return b
	case 4:
		return []byte{0xe0 | byte(1+r.Intn(15)), 0x00} // DISCONNECT with reserved flag bits set
	case 5:
		// acknowledgement too short for its packet identifier
		t := []byte{0x40, 0x50, 0x62, 0x70}[r.Intn(4)]
		if r.Bool(1, 2) {
			return []byte{t, 0x00}
		}
		return []byte{t, 0x01, byte(r.Intn(256))}
	case 6:
		// SUBSCRIBE / UNSUBSCRIBE too short for a packet identifier
		return []byte{[]byte{0x82, 0xa2}[r.Intn(2)], 0x00}
	case 7:
		// QoS>0 PUBLISH whose remaining length ends before the packet identifier
		q := byte(1 + r.Intn(2))
		if r.Bool(1, 2) {
			return []byte{0x30 | q<<1, 0x03, 0x00, 0x01, 'a'}
		}
		return []byte{0x30 | q<<1, 0x04, 0x00, 0x01, 'a', byte(r.Intn(256))}
	default:
		// PUBREL with wrong flags
		return []byte{0x60 | byte([]int{0, 1, 4, 8, 3}[r.Intn(5)]), 0x02, byte(r.Intn(256)), byte(1 + r.Intn(255))}
	}
}

// genWill is the C09 profile.
func genWill(prop string) func(tier string, seed uint64, idx int) interface{} {
	return func(tier string, seed uint64, idx int) interface{} {
		x := newGen(seed, prop, idx, tier)
		r := x.r
		x.sc.Profile = "will"
		x.knobs()
		x.sc.Knobs.LinkCap = 65536
		x.sc.Knobs.MaxQoS = byte([]int{2, 2, 2, 1, 0}[r.Intn(5)])
		x.alphabet(false)
		nm := 1 + r.Intn(3)
		nc := nm + 1
		x.seq = make([]int, nc)
		x.pid = make([]int, nc)
		// witness (client 0) + optional in-process witness
		w := Client{Role: "witness"}
		w.Ops = append(w.Ops, x.connect(0, true), Op{K: "sub", PID: 1, Filters: []string{"#"}, QoSs: []byte{byte([]int{2, 2, 1, 0}[r.Intn(4)])}})
		rounds := 1 + r.Intn(3)
		for i := 0; i <= rounds; i++ {
			w.Ops = append(w.Ops, Op{K: "barrier"}, Op{K: "ping"})
		}
		x.sc.Clients = append(x.sc.Clients, w)
		if r.Bool(1, 3) {
			x.sc.Inproc = append(x.sc.Inproc, InprocOp{K: "sub", CB: 0, Filter: "#", QoS: byte(r.Intn(3))}, InprocOp{K: "barrier"})
		}
		for ci := 1; ci < nc; ci++ {
			cl := Client{}
			cl.Ops = append(cl.Ops, Op{K: "barrier"})
			lives := 1 + r.Intn(rounds)
			var prev *Op
			for life := 0; life < lives; life++ {
				op := Op{K: "connect", CID: fmt.Sprintf("m%d", ci), Clean: r.Bool(1, 2), KA: 600}
				same := prev != nil && r.Bool(1, 3)
				if same {
					// the very same CONNECT bytes as in the previous life
					op = *prev
					if op.Will != nil {
						w := *op.Will
						op.Will = &w
					}
				} else if r.Bool(3, 4) {
					sz := 8 + r.Intn(200)
					if r.Bool(1, 8) {
						sz = 0
					}
					if r.Bool(1, 10) {
						sz = 2000 + r.Intn(5000)
					}
					if x.sc.Knobs.BufSize == 16384 && r.Bool(1, 25) {
						// a will that does not fit into a subscriber's ring (CONNECT
						// is not read through the ring, so the broker accepts it)
						sz = 16384 + 16 + r.Intn(30000)
					}
					x.willN++
					op.Will = &Will{Topic: "will/" + x.topic(), QoS: byte(r.Intn(3)), Retain: r.Bool(1, 4), Size: sz, Ver: x.willN}
				}
				end := r.Intn(9)
				if end == 8 {
					end = 80 // a read error on the broker's side
				}
				if end == 7 && life != lives-1 {
					end = 2 // only the last life is left open until the end
				}
				if end == 5 && !same {
					op.KA = 1 + r.Intn(3)
				}
				if end == 5 && same && op.KA > 10 {
					end = 2
				}
				keep := op
				prev = &keep
				cl.Ops = append(cl.Ops, op)
				// some traffic
				for k := r.Intn(4); k > 0; k-- {
					switch r.Intn(3) {
					case 0:
						cl.Ops = append(cl.Ops, x.pub(ci, 2))
					case 1:
						cl.Ops = append(cl.Ops, x.sub(ci, 2))
					default:
						cl.Ops = append(cl.Ops, Op{K: "ping"})
					}
				}
				switch end {
				case 0:
					cl.Ops = append(cl.Ops, Op{K: "disc"})
				case 1:
					// DISCONNECT right behind unprocessed traffic
					p1 := x.pub(ci, 1)
					p1.NoWait = true
					p2 := x.pub(ci, 0)
					cl.Ops = append(cl.Ops, p1, p2, Op{K: "disc"})
				case 2:
					cl.Ops = append(cl.Ops, Op{K: "close"})
				case 3:
					cl.Ops = append(cl.Ops, Op{K: "rst"})
				case 4:
					// cut inside a packet
					pk := []byte{0x30, 0x20, 0x00, 0x03, 'c', 'u', 't', 1, 2, 3, 4}
					cl.Ops = append(cl.Ops, Op{K: "raw", Raw: pk, Cut: 3 + r.Intn(len(pk)-3)})
				case 5:
					// keep-alive expiry: stay silent for well over 1.5 x K
					cl.Ops = append(cl.Ops, Op{K: "sleep", D: op.KA*2000 + 1500})
				case 6:
					cl.Ops = append(cl.Ops, Op{K: "raw", Raw: x.garbage()}, Op{K: "waitdead"})
				case 80:
					cl.Ops = append(cl.Ops, Op{K: "ioerr"}, Op{K: "waitdead"})
				default:
					// left open: ended by the director at the very end
				}
				cl.Ops = append(cl.Ops, Op{K: "barrier"})
			}
			x.sc.Clients = append(x.sc.Clients, cl)
		}
		return x.sc
	}
}

// genSession is the C10 profile.
func genSession(prop string) func(tier string, seed uint64, idx int) interface{} {
	return func(tier string, seed uint64, idx int) interface{} {
		x := newGen(seed, prop, idx, tier)
		r := x.r
		x.sc.Profile = "session"
		x.knobs()
		x.sc.Knobs.LinkCap = 65536
		x.sc.Knobs.MaxQoS = byte([]int{2, 2, 2, 1}[r.Intn(4)])
		x.alphabet(false)
		nid := 1 + r.Intn(3)
		nc := nid + 1
		x.seq = make([]int, nc)
		x.pid = make([]int, nc)
		var pool []string
		rounds := 2 + r.Intn(4)
		for ci := 0; ci < nid; ci++ {
			cl := Client{}
			var mine []string
			for life := 0; life < rounds; life++ {
				clean := r.Bool(2, 5)
				op := Op{K: "connect", CID: fmt.Sprintf("s%d", ci), Clean: clean, KA: 600}
				if r.Bool(1, 6) {
					// a will the broker accepts but cannot publish ($-topics are not
					// published to): the end of the session must not depend on it
					op.Will = &Will{Topic: "$SYS/will/" + fmt.Sprint(ci), QoS: byte(r.Intn(3)), Size: 8 + r.Intn(20)}
				} else if r.Bool(1, 5) {
					// an ordinary will, in a third of the cases with an empty payload
					// (legal; with the retain flag it clears a retained message)
					op.Will = &Will{Topic: "will/s" + fmt.Sprint(ci), QoS: byte(r.Intn(3)), Size: []int{0, 8 + r.Intn(20), 8 + r.Intn(20)}[r.Intn(3)], Retain: r.Bool(1, 3)}
				}
				cl.Ops = append(cl.Ops, op, Op{K: "ping"})
				if clean {
					mine = nil
				}
				for k := r.Intn(4); k > 0; k-- {
					if r.Bool(2, 3) || len(mine) == 0 {
						s := x.sub(ci, 2)
						mine = append(mine, s.Filters...)
						pool = append(pool, s.Filters...)
						cl.Ops = append(cl.Ops, s)
					} else {
						f := mine[r.Intn(len(mine))]
						cl.Ops = append(cl.Ops, Op{K: "unsub", PID: x.nextPID(ci), Filters: []string{f}})
					}
				}
				cl.Ops = append(cl.Ops, Op{K: "barrier"}) // the publisher probes here
				cl.Ops = append(cl.Ops, Op{K: "barrier"})
				if life == rounds-1 && r.Bool(1, 2) {
					break // left open
				}
				cl.Ops = append(cl.Ops, Op{K: []string{"disc", "close", "rst"}[r.Intn(3)]})
				if r.Bool(7, 10) {
					cl.Ops = append(cl.Ops, Op{K: "barrier"}) // otherwise: immediate reconnect
				}
			}
			x.sc.Clients = append(x.sc.Clients, cl)
		}
		pi := nc - 1
		cl := Client{}
		cl.Ops = append(cl.Ops, x.connect(pi, true))
		for i := 0; i < 3*rounds; i++ {
			cl.Ops = append(cl.Ops, Op{K: "barrier"})
			for j := 1 + r.Intn(3); j > 0; j-- {
				x.seq[pi]++
				t := x.topic()
				if len(pool) > 0 && r.Bool(4, 5) {
					t = x.concretize(pool[r.Intn(len(pool))])
				}
				op := Op{K: "pub", Topic: t, QoS: byte(r.Intn(3)), Size: 8 + r.Intn(40), Seq: x.seq[pi]}
				if op.QoS > 0 {
					op.PID = x.nextPID(pi)
				}
				cl.Ops = append(cl.Ops, op)
			}
			cl.Ops = append(cl.Ops, Op{K: "ping"})
		}
		x.sc.Clients = append(x.sc.Clients, cl)
		return x.sc
	}
}

func (x *g) clientIDVariant() (string, string) {
	r := x.r
	switch r.Intn(9) {
	case 0:
		return "", "empty"
	case 1:
		return "a", "ok"
	case 2:
		return "Abc123xyz", "ok"
	case 3:
		return "abcdefghijklmnopqrstuvw", "ok" // 23
	case 4:
		return "abcdefghijklmnopqrstuvwx", "long" // 24
	case 5:
		return "client-with-dash", "chars"
	case 6:
		return "sp ace", "chars"
	case 7:
		return "id_\u00e9", "chars"
	default:
		return fmt.Sprintf("c%d", r.Intn(1000)), "ok"
	}
}

// firstPacket builds the first bytes an attacker sends.
func (x *g) firstPacket(cid string) ([]byte, string) {
	r := x.r
	switch k := r.Intn(20); {
	case k < 3:
		// some other packet type first
		t := byte(2 + r.Intn(13))
		p := &refmqtt.Packet{Type: t, ID: uint16(1 + r.Intn(100)), Topic: "c11/first", Payload: []byte("x"), Filters: []string{"#"}, QoSs: []byte{0}}
		return refmqtt.Encode(p), "type-" + refmqtt.TypeName(t)
	case k < 4:
		b := make([]byte, 2+r.Intn(20))
		for i := range b {
			b[i] = byte(r.Intn(256))
		}
		return b, "random-bytes"
	}
	p := &refmqtt.Packet{Type: refmqtt.CONNECT, ClientID: cid, CleanSession: r.Bool(1, 2), KeepAlive: uint16([]int{0, 30, 600}[r.Intn(3)])}
	kind := "connect"
	switch r.Intn(12) {
	case 0:
		p.ProtoName, p.ProtoLevel = "MQIsdp", 3
	case 1:
		p.ProtoName, p.ProtoLevel = "MQTT", byte([]int{3, 5, 0, 255}[r.Intn(4)])
		kind = "connect-bad-level"
	case 2:
		p.ProtoName, p.ProtoLevel = "MQIsdp", 4
		kind = "connect-bad-level"
	case 3:
		p.ProtoName, p.ProtoLevel = []string{"MQXX", "mqtt", "MQTTT", "M"}[r.Intn(4)], 4
		kind = "connect-bad-name"
	}
	if r.Bool(1, 3) {
		p.WillFlag = true
		p.WillQoS = byte(r.Intn(3))
		p.WillRetain = r.Bool(1, 3)
		p.WillTopic = "c11/will"
		x.willN++
		p.WillMessage = payload(srcWill+1, 900+x.willN, 8+r.Intn(30))
	}
	if r.Bool(1, 6) {
		// a CONNECT whose remaining length lies just below the one-byte limit
		// of its encoding: whatever the broker adds when it re-encodes it (a
		// generated client identifier) pushes it across
		p.WillFlag = true
		if p.WillTopic == "" {
			p.WillTopic = "c11/will"
		}
		x.willN++
		base := len(refmqtt.Encode(&refmqtt.Packet{Type: refmqtt.CONNECT, ClientID: p.ClientID, CleanSession: p.CleanSession, KeepAlive: p.KeepAlive, ProtoName: p.ProtoName, ProtoLevel: p.ProtoLevel, WillFlag: true, WillQoS: p.WillQoS, WillRetain: p.WillRetain, WillTopic: p.WillTopic})) - 2
		target := 108 + r.Intn(20)
		if n := target - base; n >= 8 {
			p.WillMessage = payload(srcWill+1, 900+x.willN, n)
		}
	}
	switch r.Intn(4) {
	case 0:
		p.HasUser, p.HasPass = true, true
		p.User = "u1"
		p.Pass = []byte("secret-u1")
		if r.Bool(1, 3) {
			p.Pass = []byte("wrong")
		}
	case 1:
		p.HasUser = true
		p.User = "u2"
	}
	b := refmqtt.Encode(p)
	switch r.Intn(14) {
	case 0:
		// reserved flag
		q := *p
		q.ConnFlags = connFlags(p) | 1
		return refmqtt.Encode(&q), "connect-reserved-flag"
	case 1:
		q := *p
		q.WillFlag = false
		q.ConnFlags = (connFlags(&q) &^ 4) | byte(1+r.Intn(2))<<3
		return refmqtt.Encode(&q), "connect-willqos-without-will"
	case 2:
		q := *p
		q.ConnFlags = connFlags(p) | 4 | 3<<3
		q.WillTopic, q.WillMessage = "c11/will", []byte("w")
		return refmqtt.Encode(&q), "connect-willqos-3"
	case 3:
		q := *p
		q.HasUser, q.HasPass = false, true
		q.Pass = []byte("p")
		q.ConnFlags = (connFlags(p) &^ 0x80) | 0x40
		return refmqtt.Encode(&q), "connect-password-without-user"
	case 4:
		// truncated: the fixed header promises more than is ever sent
		cut := 1 + r.Intn(len(b)-1)
		return b[:cut], "connect-truncated"
	case 5:
		// remaining length shorter than the body
		c := append([]byte{}, b...)
		if c[1] > 4 {
			c[1] -= byte(1 + r.Intn(4))
		}
		return c, "connect-short-remlen"
	case 6:
		// bytes behind the last payload field, inside the remaining length
		k := 1 + r.Intn(4)
		if int(b[1])+k < 128 {
			c := append([]byte{}, b...)
			c[1] += byte(k)
			for i := 0; i < k; i++ {
				c = append(c, byte(r.Intn(256)))
			}
			return c, "connect-trailing-bytes"
		}
	case 7, 8:
		// a string field that is not valid UTF-8, or contains U+0000
		bad := []string{"\xff\xfeu", "u\xc3", "\xed\xa0\x80"}[r.Intn(3)]
		kind := "connect-string-not-utf8"
		if r.Bool(1, 2) {
			bad, kind = []string{"u\x00x", "\x00", "c11/\x00w"}[r.Intn(3)], "connect-string-with-nul"
		}
		q := *p
		if q.WillFlag && r.Bool(1, 2) {
			q.WillTopic = "c11/" + bad
		} else {
			q.HasUser, q.User = true, bad
		}
		return refmqtt.Encode(&q), kind
	}
	return b, kind
}

func connFlags(p *refmqtt.Packet) byte {
	var cf byte
	if p.CleanSession {
		cf |= 2
	}
	if p.WillFlag {
		cf |= 4 | p.WillQoS<<3
		if p.WillRetain {
			cf |= 0x20
		}
	}
	if p.HasPass {
		cf |= 0x40
	}
	if p.HasUser {
		cf |= 0x80
	}
	return cf
}

// genConnect is the C11 profile.
func genConnect(prop string) func(tier string, seed uint64, idx int) interface{} {
	return func(tier string, seed uint64, idx int) interface{} {
		x := newGen(seed, prop, idx, tier)
		r := x.r
		x.sc.Profile = "connect"
		x.knobs()
		x.sc.Knobs.LinkCap = 65536
		x.sc.Knobs.Authenticator = []string{"", "", "mockFailure", "verifPass"}[r.Intn(4)]
		x.alphabet(false)
		na := 1 + r.Intn(2)
		nc := 1 + 2*na
		x.seq = make([]int, nc)
		x.pid = make([]int, nc)
		w := Client{Role: "witness"}
		wc := x.connect(0, true)
		wc.Auth, wc.User, wc.Pass = true, "w", "secret-w"
		w.Ops = append(w.Ops, wc, Op{K: "sub", PID: 1, Filters: []string{"#"}, QoSs: []byte{2}}, Op{K: "barrier"}, Op{K: "barrier"}, Op{K: "barrier"}, Op{K: "ping"})
		x.sc.Clients = append(x.sc.Clients, w)
		used := map[string]bool{}
		for a := 0; a < na; a++ {
			ai := 1 + 2*a
			cid, _ := x.clientIDVariant()
			for used[cid] {
				cid, _ = x.clientIDVariant()
			}
			used[cid] = true
			cl := Client{Role: "attacker"}
			cl.Ops = append(cl.Ops, Op{K: "barrier"}, Op{K: "open"})
			fp, _ := x.firstPacket(cid)
			cl.Ops = append(cl.Ops, Op{K: "raw", Raw: fp})
			// further packets, pipelined behind the first one
			for k := r.Intn(4); k > 0; k-- {
				var p *refmqtt.Packet
				switch r.Intn(4) {
				case 0:
					p = &refmqtt.Packet{Type: refmqtt.SUBSCRIBE, ID: 7, Filters: []string{"#"}, QoSs: []byte{1}}
				case 1:
					x.seq[ai]++
					p = &refmqtt.Packet{Type: refmqtt.PUBLISH, Topic: fmt.Sprintf("c11/r%d", ai), Retain: true, QoS: 0, Payload: payload(ai, x.seq[ai], 8+r.Intn(30))}
				case 2:
					x.seq[ai]++
					p = &refmqtt.Packet{Type: refmqtt.PUBLISH, Topic: "c11/live", QoS: 1, ID: 9, Payload: payload(ai, x.seq[ai], 8+r.Intn(30))}
				default:
					p = &refmqtt.Packet{Type: refmqtt.PINGREQ}
				}
				cl.Ops = append(cl.Ops, Op{K: "raw", Raw: refmqtt.Encode(p)})
			}
			// let the connect timeout pass, then see what happened
			cl.Ops = append(cl.Ops, Op{K: "sleep", D: 2500 + r.Intn(3000)}, Op{K: "close"}, Op{K: "barrier"}, Op{K: "barrier"})
			x.sc.Clients = append(x.sc.Clients, cl)
			// prober: same identifier, persistent session, looks at retained state
			pr := Client{Role: "prober"}
			pc := Op{K: "connect", CID: cid, Clean: false, KA: 600, Auth: true, User: "p", Pass: "secret-p"}
			if cid == "" {
				pc.CID = "prober"
			}
			pr.Ops = append(pr.Ops, Op{K: "barrier"}, Op{K: "barrier"}, pc, Op{K: "sub", PID: 1, Filters: []string{"#"}, QoSs: []byte{1}}, Op{K: "ping"}, Op{K: "barrier"})
			x.sc.Clients = append(x.sc.Clients, pr)
		}
		return x.sc
	}
}

// samplePacket returns a valid packet of the given type.
func samplePacket(t byte, seq int) *refmqtt.Packet {
	p := &refmqtt.Packet{Type: t, ID: uint16(100 + seq)}
	switch t {
	case refmqtt.CONNECT:
		p.ClientID, p.CleanSession, p.KeepAlive = fmt.Sprintf("att%d", seq), true, 600
		p.WillFlag, p.WillTopic, p.WillMessage, p.WillQoS = true, "att/will", []byte("gone"), 1
		p.HasUser, p.HasPass, p.User, p.Pass = true, true, "user", []byte("secret-user")
	case refmqtt.CONNACK:
		p.Code = 0
	case refmqtt.PUBLISH:
		p.Topic, p.QoS, p.Payload = "att/topic", byte(seq%3), payload(90, seq, 24)
		if p.QoS == 0 {
			p.ID = 0
		}
	case refmqtt.SUBSCRIBE:
		p.Filters, p.QoSs = []string{"att/#", "w/none"}, []byte{1, 0}
	case refmqtt.SUBACK:
		p.QoSs = []byte{0, 1}
	case refmqtt.UNSUBSCRIBE:
		p.Filters = []string{"att/#", "x/y"}
	}
	return p
}

// corrupt damages a valid encoding in one of several ways; it reports whether
// the connection should be cut right after the bytes.
func corrupt(r *simrt.Rand, b []byte) ([]byte, bool, string) {
	c := append([]byte{}, b...)
	switch r.Intn(8) {
	case 0:
		k := 1 + r.Intn(len(c)-1)
		return c[:k], true, "truncated"
	case 1:
		c[r.Intn(len(c))] ^= byte(1 << uint(r.Intn(8)))
		return c, false, "bitflip"
	case 2:
		if len(c) > 1 {
			c[1] = byte(int(c[1])+1+r.Intn(30)) & 0x7f // remaining length too large: the broker waits for more
		}
		return c, r.Bool(1, 2), "remlen-larger"
	case 3:
		if len(c) > 1 && c[1] > 0 {
			c[1] = byte(r.Intn(int(c[1])))
		}
		return c, false, "remlen-smaller"
	case 4:
		// a length prefix pointing beyond the packet
		if len(c) > 4 {
			i := 2 + r.Intn(len(c)-3)
			c[i], c[i+1] = 0xff, 0xff
		}
		return c, false, "length-prefix"
	case 5:
		// maximal 4-byte remaining length, nothing behind it
		return []byte{c[0], 0xff, 0xff, 0xff, 0x7f}, r.Bool(1, 2), "remlen-max"
	case 6:
		// overlong 5-byte remaining length
		return []byte{c[0], 0x80 | byte(r.Intn(128)), 0x80 | byte(r.Intn(128)), 0x80 | byte(r.Intn(128)), 0x80 | byte(r.Intn(128)), byte(1 + r.Intn(0x7e)), 0, 0}, false, "remlen-5-bytes"
	default:
		c[0] = c[0]&0xf0 | byte(r.Intn(16)) // flags
		return c, false, "flags"
	}
}

func (x *g) witnessPair(rounds int) (Client, Client) {
	r := x.r
	flood := x.flood
	wp := Client{Role: "witness"}
	ws := Client{Role: "witness"}
	wp.Ops = append(wp.Ops, Op{K: "connect", CID: "wpub", Clean: true, KA: 600, Auth: true, User: "wpub", Pass: "secret-wpub"})
	ws.Ops = append(ws.Ops, Op{K: "connect", CID: "wsub", Clean: true, KA: 600, Auth: true, User: "wsub", Pass: "secret-wsub"}, Op{K: "sub", PID: 1, Filters: []string{"w/#"}, QoSs: []byte{byte([]int{2, 2, 1, 0}[r.Intn(4)])}})
	wp.Ops = append(wp.Ops, Op{K: "barrier"})
	ws.Ops = append(ws.Ops, Op{K: "barrier"})
	for i := 0; i < rounds; i++ {
		n := 2 + r.Intn(6)
		if flood {
			n = 7 + r.Intn(5)
		}
		for k := n; k > 0; k-- {
			x.seq[0]++
			op := Op{K: "pub", Topic: "w/a", QoS: byte(r.Intn(3)), Size: x.size(), Seq: x.seq[0]}
			if r.Bool(1, 6) {
				op.Size = 8 + r.Intn(30)
			}
			if flood {
				// enough volume to fill a stalled subscriber's ring and link
				op.Size = 4000 + r.Intn(4000)
			}
			if op.QoS > 0 {
				op.PID = x.nextPID(0)
			}
			wp.Ops = append(wp.Ops, op)
		}
		wp.Ops = append(wp.Ops, Op{K: "ping"}, Op{K: "barrier"})
		ws.Ops = append(ws.Ops, Op{K: "ping"}, Op{K: "barrier"})
	}
	ws.Ops = append(ws.Ops, Op{K: "ping"})
	wp.Ops = append(wp.Ops, Op{K: "ping"})
	return wp, ws
}

func (x *g) attacker(ai int, kind int) Client {
	r := x.r
	cl := Client{Role: "attacker"}
	cl.Ops = append(cl.Ops, Op{K: "barrier"})
	for i := r.Intn(3); i > 0; i-- {
		cl.Ops = append(cl.Ops, Op{K: "sleep", D: 0})
	}
	valid := Op{K: "connect", CID: fmt.Sprintf("att%d", ai), Clean: r.Bool(2, 3), KA: 600, Auth: true, User: "a", Pass: "secret-a"}
	if r.Bool(1, 3) {
		valid.Will = &Will{Topic: []string{"att/will", "att/will", "att/will", "$SYS/att-will"}[r.Intn(4)], QoS: byte(r.Intn(3)), Size: 8 + r.Intn(20)}
		if x.sc.Knobs.BufSize == 16384 && r.Bool(1, 4) {
			valid.Will.Size = 16384 + 16 + r.Intn(30000) // larger than any subscriber's ring
			if r.Bool(1, 2) {
				valid.Will.Topic = "w/att-will" // addressed to the witness subscriber
			}
		}
	}
	switch kind {
	case 0: // garbage before CONNECT
		fp, _ := x.firstPacket(valid.CID)
		if r.Bool(1, 2) {
			c, _, _ := corrupt(r, refmqtt.Encode(samplePacket(refmqtt.CONNECT, ai)))
			fp = c
		}
		cl.Ops = append(cl.Ops, Op{K: "open"}, Op{K: "raw", Raw: fp})
		switch r.Intn(4) {
		case 0:
			cl.Ops = append(cl.Ops, Op{K: "sleep", D: 2200 + r.Intn(1000)})
		case 1:
			cl.Ops = append(cl.Ops, Op{K: "rst"})
		case 2:
			cl.Ops = append(cl.Ops, Op{K: "close"})
		}
	case 1: // corrupted packets after a valid CONNECT
		cl.Ops = append(cl.Ops, valid)
		for k := 1 + r.Intn(4); k > 0; k-- {
			t := byte(1 + r.Intn(14))
			b, cut, _ := corrupt(r, refmqtt.Encode(samplePacket(t, ai*10+k)))
			op := Op{K: "raw", Raw: b}
			if cut {
				op.Cut = len(b)
			}
			cl.Ops = append(cl.Ops, op)
			if cut {
				break
			}
		}
		if r.Bool(1, 3) {
			cl.Ops = append(cl.Ops, Op{K: []string{"close", "rst"}[r.Intn(2)]})
		}
	case 2: // subscribes to the witness traffic, then vanishes while it is being delivered to
		cl.Ops = append(cl.Ops, valid, Op{K: "sub", PID: 5, Filters: []string{[]string{"w/#", "#", "w/a", "+/a"}[r.Intn(4)]}, QoSs: []byte{byte(r.Intn(3))}, NoWait: r.Bool(1, 3)})
		if r.Bool(1, 3) {
			cl.Ops = append(cl.Ops, Op{K: "stall"})
			cl.AckMode = "none"
		}
		for i := r.Intn(6); i > 0; i-- {
			cl.Ops = append(cl.Ops, Op{K: "ping", NoWait: r.Bool(1, 2)})
		}
		cl.Ops = append(cl.Ops, Op{K: []string{"close", "rst", "disc", "ioerr"}[r.Intn(4)]})
	case 3: // a packet larger than the ring
		cl.Ops = append(cl.Ops, valid)
		n := x.sc.Knobs.BufSize + r.Intn(8000)
		p := &refmqtt.Packet{Type: refmqtt.PUBLISH, Topic: "att/big", Payload: make([]byte, n)}
		b := refmqtt.Encode(p)
		if r.Bool(1, 2) {
			b = b[:len(b)/2+r.Intn(len(b)/2)]
		}
		cl.Ops = append(cl.Ops, Op{K: "raw", Raw: b}, Op{K: "sleep", D: 0})
	default: // publishes into the witness topic, then is cut inside a packet
		cl.Ops = append(cl.Ops, valid)
		for k := 1 + r.Intn(3); k > 0; k-- {
			x.seq[ai]++
			// (topics the broker cannot route - reserved '$' topics - are legal
			// packets too: whatever the topic store answers, nobody else may suffer)
			op := Op{K: "pub", Topic: []string{"w/x", "w/x", "w/x", "$SYS/att", "$att"}[r.Intn(5)], QoS: byte(r.Intn(3)), Size: 8 + r.Intn(200), Seq: x.seq[ai], NoWait: r.Bool(1, 2)}
			if op.QoS > 0 {
				op.PID = x.nextPID(ai)
			}
			if op.QoS == 2 {
				op.NoWait = false
			}
			cl.Ops = append(cl.Ops, op)
		}
		b := refmqtt.Encode(samplePacket(refmqtt.PUBLISH, ai))
		cl.Ops = append(cl.Ops, Op{K: "raw", Raw: b, Cut: 1 + r.Intn(len(b)-1)})
	}
	return cl
}

// genWitness is the C05 profile: a witness publisher/subscriber pair whose
// traffic must stay exact while attacker connections misbehave.
func genWitness(prop string) func(tier string, seed uint64, idx int) interface{} {
	return func(tier string, seed uint64, idx int) interface{} {
		x := newGen(seed, prop, idx, tier)
		r := x.r
		x.sc.Profile = "witness"
		x.knobs()
		x.sc.Knobs.Authenticator = []string{"", "", "verifPass"}[r.Intn(3)]
		x.alphabet(false)
		na := 1 + r.Intn(3)
		nc := 2 + na
		x.seq = make([]int, nc)
		x.pid = make([]int, nc)
		// a sixth of the scripts: the witness publisher floods, one attacker
		// subscribes to the flood, stops reading and vanishes once the
		// publisher's processor is parked on its full ring
		x.flood = r.Bool(1, 6)
		if x.flood {
			x.sc.Knobs.BufSize = 16384
			x.sc.Knobs.LinkCap = []int{64, 512, 4096}[r.Intn(3)]
		}
		wp, ws := x.witnessPair(1 + r.Intn(3))
		x.sc.Clients = append(x.sc.Clients, wp, ws)
		for a := 0; a < na; a++ {
			if x.flood && a == 0 {
				cl := Client{Role: "attacker", AckMode: "none"}
				cl.Ops = append(cl.Ops, Op{K: "barrier"},
					Op{K: "connect", CID: "att2", Clean: r.Bool(2, 3), KA: 600, Auth: true, User: "a", Pass: "secret-a"},
					Op{K: "sub", PID: 5, Filters: []string{[]string{"w/#", "#", "w/a"}[r.Intn(3)]}, QoSs: []byte{byte(r.Intn(3))}},
					Op{K: "stall"}, Op{K: "sleep", D: 50 + r.Intn(500)},
					Op{K: []string{"close", "rst"}[r.Intn(2)]})
				x.sc.Clients = append(x.sc.Clients, cl)
				continue
			}
			x.sc.Clients = append(x.sc.Clients, x.attacker(2+a, r.Intn(5)))
		}
		return x.sc
	}
}

// enumWitness enumerates every truncation point of a valid packet of every
// type, before and after a valid CONNECT, with the connection cut there.
func enumWitness(tier string) []interface{} {
	var out []interface{}
	for t := byte(1); t <= 14; t++ {
		b := refmqtt.Encode(samplePacket(t, int(t)))
		for pre := 0; pre < 2; pre++ {
			for cut := 1; cut < len(b); cut++ {
				x := &g{r: simrt.NewRand(uint64(t)*1000 + uint64(cut)*2 + uint64(pre)), sc: &Script{}, tier: tier}
				x.sc.Profile = "witness"
				x.knobs()
				x.sc.Knobs.LinkCap = 65536
				x.alphabet(false)
				x.seq = make([]int, 3)
				x.pid = make([]int, 3)
				wp, ws := x.witnessPair(1)
				cl := Client{Role: "attacker"}
				cl.Ops = append(cl.Ops, Op{K: "barrier"})
				if pre == 0 {
					cl.Ops = append(cl.Ops, Op{K: "open"})
				} else {
					cl.Ops = append(cl.Ops, Op{K: "connect", CID: "att", Clean: true, KA: 600})
				}
				cl.Ops = append(cl.Ops, Op{K: "raw", Raw: b, Cut: cut})
				x.sc.Clients = append(x.sc.Clients, wp, ws, cl)
				out = append(out, x.sc)
			}
		}
	}
	// every packet type (PUBLISH at QoS 0, 1 and 2) with every remaining length
	// smaller than the real one, the rest of the bytes and a PINGREQ following
	// at once: the decoders must not take fields from behind the packet
	for t := byte(2); t <= 14; t++ {
		for q := 0; q < 3; q++ {
			if t != refmqtt.PUBLISH && q > 0 {
				break
			}
			sp := samplePacket(t, int(t))
			if t == refmqtt.PUBLISH {
				sp.QoS, sp.ID, sp.Topic, sp.Payload = byte(q), uint16(7*q), "a/b", payload(90, q, 8)
			}
			b := refmqtt.Encode(sp)
			if b[1] >= 0x80 {
				continue
			}
			for rl := 0; rl < int(b[1]); rl++ {
				x := &g{r: simrt.NewRand(uint64(t)*100000 + uint64(rl)*8 + uint64(q)), sc: &Script{}, tier: tier}
				x.sc.Profile = "witness"
				x.knobs()
				x.sc.Knobs.LinkCap = 65536
				x.alphabet(false)
				x.seq = make([]int, 3)
				x.pid = make([]int, 3)
				wp, ws := x.witnessPair(1)
				c := append([]byte{}, b...)
				c[1] = byte(rl)
				c = append(c, 0xc0, 0x00)
				cl := Client{Role: "attacker"}
				cl.Ops = append(cl.Ops, Op{K: "barrier"}, Op{K: "connect", CID: "att", Clean: true, KA: 600, Auth: true, User: "a", Pass: "secret-a"}, Op{K: "raw", Raw: c})
				x.sc.Clients = append(x.sc.Clients, wp, ws, cl)
				out = append(out, x.sc)
			}
		}
	}
	return out
}

// genKeepAlive is the C19 profile.
func genKeepAlive(prop string) func(tier string, seed uint64, idx int) interface{} {
	return func(tier string, seed uint64, idx int) interface{} {
		x := newGen(seed, prop, idx, tier)
		r := x.r
		x.sc.Profile = "keepalive"
		x.knobs()
		x.sc.Knobs.LinkCap = 65536
		x.alphabet(false)
		nk := 1 + r.Intn(3)
		nc := nk + 1
		x.seq = make([]int, nc+1)
		x.pid = make([]int, nc+1)
		fed := false
		// feedSub: the client holds a QoS 0 subscription on which another client
		// keeps publishing while it is silent - what the broker sends to a client
		// is not activity of that client
		feedSub := func(cl *Client, ci int) {
			if r.Bool(1, 2) {
				cl.Ops = append(cl.Ops, Op{K: "sub", PID: x.nextPID(ci), Filters: []string{"feed/#"}, QoSs: []byte{0}})
				fed = true
			}
		}
		w := Client{Role: "witness"}
		wc := x.connect(0, true)
		wc.KA = 0 // broker default minimum: far beyond the run
		wc.KA = 6000
		w.Ops = append(w.Ops, wc, Op{K: "sub", PID: 1, Filters: []string{"#"}, QoSs: []byte{2}}, Op{K: "barrier"})
		// the witness itself stays active
		for i := 0; i < 6; i++ {
			w.Ops = append(w.Ops, Op{K: "sleep", D: 20000}, Op{K: "ping"})
		}
		x.sc.Clients = append(x.sc.Clients, w)
		for ci := 1; ci < nc; ci++ {
			k := []int{1, 2, 3, 5, 10}[r.Intn(5)]
			cl := Client{}
			op := Op{K: "connect", CID: fmt.Sprintf("k%d", ci), Clean: true, KA: k}
			if r.Bool(2, 3) {
				op.Will = &Will{Topic: fmt.Sprintf("will/k%d", ci), QoS: byte(r.Intn(3)), Size: 8 + r.Intn(40)}
			}
			cl.Ops = append(cl.Ops, Op{K: "barrier"}, op)
			active := func(rounds int) {
				for i := 0; i < rounds; i++ {
					f := 200 + r.Intn(750) // 0.2 .. 0.95 of K
					cl.Ops = append(cl.Ops, Op{K: "sleep", D: k * f})
					switch r.Intn(4) {
					case 0:
						cl.Ops = append(cl.Ops, x.pub(ci, 2))
					case 1:
						p := x.pub(ci, 0)
						p.NoWait = true
						cl.Ops = append(cl.Ops, p)
					default:
						cl.Ops = append(cl.Ops, Op{K: "ping", NoWait: r.Bool(1, 3)})
					}
				}
			}
			switch r.Intn(5) {
			case 0: // silent from the start
				feedSub(&cl, ci)
				cl.Ops = append(cl.Ops, Op{K: "sleep", D: k*2000 + 1500 + r.Intn(3000)})
			case 1: // traffic, then silence
				active(1 + r.Intn(6))
				feedSub(&cl, ci)
				cl.Ops = append(cl.Ops, Op{K: "sleep", D: k*2000 + 1500 + r.Intn(3000)})
			case 2: // active throughout, leaves with DISCONNECT or stays
				active(3 + r.Intn(12))
				if r.Bool(1, 2) {
					cl.Ops = append(cl.Ops, Op{K: "disc"})
				}
			case 3: // one packet dribbled byte by byte at intervals below K, then silence
				b := refmqtt.Encode(&refmqtt.Packet{Type: refmqtt.PUBLISH, Topic: "dribble", Payload: payload(ci, 1, 8)})
				x.seq[ci] = 1
				for i := 0; i < len(b); i++ {
					cl.Ops = append(cl.Ops, Op{K: "raw", Raw: b[i : i+1]})
					if i%3 == 2 {
						cl.Ops = append(cl.Ops, Op{K: "sleep", D: k * (200 + r.Intn(700))})
					}
				}
				cl.Ops = append(cl.Ops, Op{K: "ping"}, Op{K: "sleep", D: k*2000 + 2000})
			default: // active, silent (dropped), reconnect, active
				active(2 + r.Intn(4))
				cl.Ops = append(cl.Ops, Op{K: "sleep", D: k*2000 + 1500}, op)
				active(2 + r.Intn(4))
			}
			x.sc.Clients = append(x.sc.Clients, cl)
		}
		if fed {
			fc := Client{}
			fo := Op{K: "connect", CID: "feeder", Clean: true, KA: 6000}
			fc.Ops = append(fc.Ops, Op{K: "barrier"}, fo)
			for i := 0; i < 60; i++ {
				x.seq[nc]++
				fc.Ops = append(fc.Ops, Op{K: "sleep", D: 300 + r.Intn(500)}, Op{K: "pub", Topic: "feed/x", QoS: 0, Size: 8 + r.Intn(30), Seq: x.seq[nc], NoWait: true})
			}
			x.sc.Clients = append(x.sc.Clients, fc)
		}
		return x.sc
	}
}

// genTeardown is the C16 profile: end cause x buffer condition x order.
func genTeardown(prop string) func(tier string, seed uint64, idx int) interface{} {
	return func(tier string, seed uint64, idx int) interface{} {
		return teardownScript(newGen(seed, prop, idx, tier))
	}
}

// enumTeardown enumerates the grid buffer condition x end causes x order x
// barrier x Server.Close completely (the remaining details of each script are
// seeded by the grid index).
func enumTeardown(tier string) []interface{} {
	var out []interface{}
	n := 0
	for cond := 0; cond < 4; cond++ {
		for closeSrv := 0; closeSrv < 2; closeSrv++ {
			for c1 := 0; c1 < 3; c1++ {
				for order := 0; order < 2; order++ {
					for barrier := 0; barrier < 2; barrier++ {
						for c2 := 0; c2 < 4; c2++ { // 3 = the second connection is not ended (or the stalled one resumes)
							n++
							x := &g{r: simrt.NewRand(uint64(n) * 7919), sc: &Script{}, tier: tier}
							// forced choices, in the order in which teardownScript picks
							switch cond {
							case 0:
								x.force = []int{cond, closeSrv, c2 % 4, c1}
							default:
								x.force = []int{cond, closeSrv, order, c1, barrier, c2}
							}
							out = append(out, teardownScript(x))
						}
					}
				}
			}
		}
	}
	return out
}

func teardownScript(x *g) interface{} {
	{
		r := x.r
		x.sc.Profile = "teardown"
		x.knobs()
		x.sc.Knobs.BufSize = 16384
		x.sc.Knobs.LinkCap = []int{64, 256, 1024}[r.Intn(3)]
		x.alphabet(false)
		cond := x.pick(4) // 0 idle, 1 own out-ring full, 2 in-ring full behind a third party, 3 cross-blocked pair
		nc := 4
		x.seq = make([]int, nc)
		x.pid = make([]int, nc)
		x.sc.Knobs.CloseServer = x.pickP(1, 6)
		mk := func(ci int, ka int, clean bool, will bool) Op {
			op := Op{K: "connect", CID: fmt.Sprintf("t%d", ci), Clean: clean, KA: ka}
			if clean && x.force == nil && r.Bool(1, 5) {
				op.CID = "" // anonymous: the broker generates an identifier
			}
			if will {
				op.Will = &Will{Topic: fmt.Sprintf("will/t%d", ci), QoS: byte(r.Intn(3)), Size: 8 + r.Intn(40)}
			}
			return op
		}
		flood := func(ci int, topic string, total int) []Op {
			var ops []Op
			for sent := 0; sent < total; {
				x.seq[ci]++
				sz := 600 + r.Intn(1400)
				op := Op{K: "pub", Topic: topic, QoS: byte(r.Intn(2)), Size: sz, Seq: x.seq[ci], NoWait: true}
				if op.QoS > 0 {
					op.PID = x.nextPID(ci)
				}
				ops = append(ops, op)
				sent += sz
			}
			return ops
		}
		cause := func(target int) []Op {
			// how the connection of client `target` ends (executed by the killer)
			switch x.pick(3) {
			case 0:
				return []Op{{K: "kill", Target: target, How: "fin"}}
			case 1:
				return []Op{{K: "kill", Target: target, How: "rst"}}
			default:
				return []Op{{K: "sleep", D: 9000}} // half-open: the keep-alive (3 s) must notice
			}
		}
		ka := func() int { return 3 }
		a := Client{}
		b := Client{}
		killer := Client{Role: "killer"}
		prober := Client{Role: "prober"}
		quietKiller := false
		if x.force == nil && r.Bool(1, 8) {
			// self-flood: a subscribes to what it publishes and stops reading, so
			// its processor parks on its own full outgoing ring and its receiver
			// on the full incoming ring; behind the flood it has already sent a
			// DISCONNECT (or a malformed packet) and another ring of bytes; then
			// it reads again: the processor reaches the DISCONNECT and ends the
			// connection while the receiver is still parked
			x.sc.Knobs.CloseServer = false
			a.Ops = append(a.Ops, mk(0, 600, r.Bool(1, 2), r.Bool(1, 2)), Op{K: "sub", PID: 1, Filters: []string{"self/#"}, QoSs: []byte{byte(r.Intn(2))}}, Op{K: "stall"}, Op{K: "barrier"})
			a.AckMode = "none"
			// (about one outgoing ring plus the link is delivered before the
			// processor parks; the DISCONNECT must still fit into the incoming
			// ring behind it, the bytes after it must not)
			a.Ops = append(a.Ops, flood(0, "self/x", 16384+x.sc.Knobs.LinkCap+2000+r.Intn(6000))...)
			if r.Bool(2, 3) {
				a.Ops = append(a.Ops, Op{K: "disc", NoWait: true})
			} else {
				a.Ops = append(a.Ops, Op{K: "raw", Raw: x.garbage()})
			}
			for sent := 0; sent < 16384+8192; sent += 1000 {
				a.Ops = append(a.Ops, Op{K: "raw", Raw: refmqtt.Encode(&refmqtt.Packet{Type: refmqtt.PUBLISH, Topic: "junk/x", Payload: make([]byte, 990)})})
			}
			a.Ops = append(a.Ops, Op{K: "barrier"})
			b.Ops = append(b.Ops, mk(1, 600, true, false), Op{K: "barrier"}, Op{K: "barrier"}, Op{K: "barrier"})
			// a's writer blocks inside the junk: the killer lets it read again
			killer.Ops = append(killer.Ops, Op{K: "barrier"}, Op{K: "barrier"}, Op{K: "resumeother", Target: 0}, Op{K: "barrier"}, Op{K: "barrier"})
			prober.Ops = append(prober.Ops, Op{K: "connect", CID: "prober", Clean: true, KA: 600}, Op{K: "sub", PID: 1, Filters: []string{"will/#"}, QoSs: []byte{2}})
			for i := 0; i < 4; i++ {
				prober.Ops = append(prober.Ops, Op{K: "barrier"})
			}
			prober.Ops = append(prober.Ops, Op{K: "ping"})
			x.sc.Clients = append(x.sc.Clients, a, b, killer, prober)
			return x.sc
		}
		switch cond {
		case 0:
			a.Ops = append(a.Ops, mk(0, ka(), r.Bool(1, 2), r.Bool(1, 2)), x.sub(0, 2))
			b.Ops = append(b.Ops, mk(1, ka(), r.Bool(1, 2), r.Bool(1, 2)), x.pub(1, 2), x.pub(1, 2))
			switch x.pick(4) {
			case 0:
				a.Ops = append(a.Ops, Op{K: "disc"})
			case 1:
				a.Ops = append(a.Ops, Op{K: "raw", Raw: x.garbage()}, Op{K: "waitdead"})
			case 2:
				a.Ops = append(a.Ops, Op{K: "close"})
			default:
				a.Ops = append(a.Ops, Op{K: "sleep", D: 9000})
			}
			killer.Ops = append(killer.Ops, Op{K: "barrier"})
			killer.Ops = append(killer.Ops, cause(1)...)
		case 1, 2:
			// a: subscriber that stops reading; b: publisher flooding it
			a.Ops = append(a.Ops, mk(0, ka(), r.Bool(1, 2), r.Bool(1, 2)), Op{K: "sub", PID: 1, Filters: []string{"t/#"}, QoSs: []byte{byte(r.Intn(3))}}, Op{K: "stall"}, Op{K: "barrier"}, Op{K: "barrier"})
			a.AckMode = "none"
			if r.Bool(1, 3) {
				// one more SUBSCRIBE while its own outgoing ring is full: the
				// SUBACK can only be written once the ring is closed
				a.Ops = append(a.Ops, Op{K: "sub", PID: 2, Filters: []string{"extra/#"}, QoSs: []byte{byte(r.Intn(3))}, NoWait: true})
			}
			total := 16384 + 4096 + x.sc.Knobs.LinkCap
			if cond == 2 {
				total = 3*16384 + 8192
			}
			b.Ops = append(b.Ops, mk(1, ka(), r.Bool(1, 2), r.Bool(1, 2)), Op{K: "barrier"})
			b.Ops = append(b.Ops, flood(1, "t/x", total)...)
			if x.force == nil && r.Bool(1, 4) {
				// a DISCONNECT queued behind the flood the processor is parked on:
				// whatever ends the connection later (in half of these scripts
				// Server.Close), the will stays unpublished; an in-process
				// subscriber watches the will topics
				b.Ops = append(b.Ops, Op{K: "disc", NoWait: true})
				if b.Ops[0].Will == nil {
					b.Ops[0].Will = &Will{Topic: "will/t1", QoS: byte(r.Intn(3)), Size: 8 + r.Intn(40)}
				}
				x.sc.Knobs.CloseServer = r.Bool(1, 2)
				quietKiller = x.sc.Knobs.CloseServer && r.Bool(2, 3)
				x.sc.Inproc = append(x.sc.Inproc, InprocOp{K: "sub", CB: 0, Filter: "will/#", QoS: byte(r.Intn(3))})
			}
			killer.Ops = append(killer.Ops, Op{K: "barrier"}, Op{K: "barrier"})
			first, second := 0, 1
			if x.pick(2) == 1 {
				first, second = 1, 0
			}
			killer.Ops = append(killer.Ops, cause(first)...)
			if x.pick(2) == 1 {
				killer.Ops = append(killer.Ops, Op{K: "barrier"})
			}
			if c2 := x.pick(4); c2 < 3 {
				x.force = append([]int{c2}, x.force...)
				killer.Ops = append(killer.Ops, cause(second)...)
			} else if second == 0 {
				killer.Ops = append(killer.Ops, Op{K: "resumeother", Target: 0})
			}
		default:
			// cross-blocked pair: each subscribes to what the other floods
			a.Ops = append(a.Ops, mk(0, ka(), r.Bool(1, 2), r.Bool(1, 2)), Op{K: "sub", PID: 1, Filters: []string{"b/#"}, QoSs: []byte{byte(r.Intn(2))}}, Op{K: "stall"}, Op{K: "barrier"})
			b.Ops = append(b.Ops, mk(1, ka(), r.Bool(1, 2), r.Bool(1, 2)), Op{K: "sub", PID: 1, Filters: []string{"a/#"}, QoSs: []byte{byte(r.Intn(2))}}, Op{K: "stall"}, Op{K: "barrier"})
			a.AckMode, b.AckMode = "none", "none"
			a.Ops = append(a.Ops, flood(0, "a/x", 3*16384)...)
			b.Ops = append(b.Ops, flood(1, "b/x", 3*16384)...)
			killer.Ops = append(killer.Ops, Op{K: "barrier"}, Op{K: "barrier"})
			first, second := 0, 1
			if x.pick(2) == 1 {
				first, second = 1, 0
			}
			killer.Ops = append(killer.Ops, cause(first)...)
			if x.pick(2) == 1 {
				killer.Ops = append(killer.Ops, Op{K: "barrier"})
			}
			if c2 := x.pick(4); c2 < 3 {
				x.force = append([]int{c2}, x.force...)
				killer.Ops = append(killer.Ops, cause(second)...)
			}
		}
		if quietKiller {
			// nothing ends the two connections before Server.Close does
			var keep []Op
			for _, op := range killer.Ops {
				if op.K == "barrier" {
					keep = append(keep, op)
				}
			}
			killer.Ops = keep
		}
		killer.Ops = append(killer.Ops, Op{K: "barrier"}, Op{K: "sleep", D: 100}, Op{K: "barrier"})
		// prober: after everything, look at what is left of the two identities
		prober.Ops = append(prober.Ops, Op{K: "connect", CID: "prober", Clean: true, KA: 600}, Op{K: "sub", PID: 1, Filters: []string{"will/#"}, QoSs: []byte{2}})
		for i := 0; i < 6; i++ {
			prober.Ops = append(prober.Ops, Op{K: "barrier"})
		}
		x.seq[3]++
		prober.Ops = append(prober.Ops, Op{K: "pub", Topic: "t/x", QoS: 1, PID: 9, Size: 16, Seq: x.seq[3]}, Op{K: "ping"})
		x.sc.Clients = append(x.sc.Clients, a, b, killer, prober)
		if x.force == nil && len(x.sc.Inproc) == 0 && r.Bool(1, 3) {
			// an in-process subscriber to the wills: it still receives while
			// Server.Close is tearing the connections down
			x.sc.Inproc = append(x.sc.Inproc, InprocOp{K: "sub", CB: 0, Filter: "will/#", QoS: byte(r.Intn(3))})
		}
		return x.sc
	}
}

// genFanIn is the C17 / C12 (broker role) profile: several concurrent
// publishers (using equal packet identifiers) deliver to a few shared, partly
// slow subscribers; payload sizes make packets straddle the end of the 16 KiB
// outgoing ring.
func genFanIn(prop string) func(tier string, seed uint64, idx int) interface{} {
	return func(tier string, seed uint64, idx int) interface{} {
		x := newGen(seed, prop, idx, tier)
		r := x.r
		x.sc.Profile = "fanin"
		x.knobs()
		x.sc.Knobs.BufSize = 16384
		x.sc.Knobs.LinkCap = []int{128, 1024, 8192, 65536}[r.Intn(4)]
		x.alphabet(false)
		npub := 2 + r.Intn(4)
		nsub := 1 + r.Intn(3)
		nc := npub + nsub
		x.seq = make([]int, nc)
		x.pid = make([]int, nc) // all publishers start at identifier 1
		if r.Bool(1, 3) {
			// the identifiers the broker assigns on each subscriber connection wrap
			// around after a few deliveries
			x.sc.Knobs.SvcPIDStart = uint32(65535 - r.Intn(14))
		}
		// a fifth of the scripts: a subscriber with a persistent session drops its
		// connection and resumes the session while the publishers keep sending
		// packets larger than one write block of the sender (8 KiB)
		resume := r.Bool(1, 5)
		if resume {
			x.sc.Knobs.BufSize, x.sc.Knobs.BufCfg = 65536, 0
		}
		for ci := 0; ci < nsub; ci++ {
			cl := Client{}
			if r.Bool(1, 4) {
				cl.AckMode = "none"
			}
			f := []string{"f/#", "f/+", "#"}[r.Intn(3)]
			if resume && ci == 0 {
				c1 := x.connect(ci, false)
				c1.Will = nil
				cl.Ops = append(cl.Ops, c1, Op{K: "sub", PID: 1, Filters: []string{f}, QoSs: []byte{byte(r.Intn(3))}}, Op{K: "barrier"})
				for k := 1 + r.Intn(3); k > 0; k-- {
					if r.Bool(1, 2) {
						cl.Ops = append(cl.Ops, Op{K: "ping"})
					}
					cl.Ops = append(cl.Ops, Op{K: []string{"close", "rst", "disc"}[r.Intn(3)]}, c1, Op{K: "ping"})
				}
				cl.Ops = append(cl.Ops, Op{K: "barrier"}, Op{K: "ping"})
				x.sc.Clients = append(x.sc.Clients, cl)
				continue
			}
			cl.Ops = append(cl.Ops, x.connect(ci, true), Op{K: "sub", PID: 1, Filters: []string{f}, QoSs: []byte{byte(r.Intn(3))}}, Op{K: "barrier"})
			if r.Bool(1, 3) {
				cl.Ops = append(cl.Ops, Op{K: "stall"}, Op{K: "sleep", D: 0}, Op{K: "sleep", D: 0}, Op{K: "resume"})
			}
			cl.Ops = append(cl.Ops, Op{K: "barrier"}, Op{K: "ping"})
			x.sc.Clients = append(x.sc.Clients, cl)
		}
		for ci := nsub; ci < nc; ci++ {
			cl := Client{}
			cl.Ops = append(cl.Ops, x.connect(ci, true), Op{K: "barrier"})
			n := 3 + r.Intn(12)
			topic := fmt.Sprintf("f/p%d", ci)
			if r.Bool(1, 3) {
				topic = "f/shared"
			}
			if r.Bool(1, 5) {
				// pipelined QoS 2: a few complete exchanges (the head of the
				// broker's in-flight queue leaves slot 0), then more PUBLISH
				// packets in flight than the queue's 16 slots, released in order
				for i := 1 + r.Intn(6); i > 0; i-- {
					x.seq[ci]++
					cl.Ops = append(cl.Ops, Op{K: "pub", Topic: topic, QoS: 2, PID: x.nextPID(ci), Size: 8 + r.Intn(60), Seq: x.seq[ci]})
				}
				var ids []uint16
				for i := 17 + r.Intn(10); i > 0; i-- {
					x.seq[ci]++
					id := x.nextPID(ci)
					ids = append(ids, id)
					cl.Ops = append(cl.Ops, Op{K: "pub", Topic: topic, QoS: 2, PID: id, Size: 8 + r.Intn(60), Seq: x.seq[ci], NoRel: true, NoWait: r.Bool(1, 2)})
				}
				for _, id := range ids {
					cl.Ops = append(cl.Ops, Op{K: "pubrel", PID: id, NoWait: r.Bool(1, 3)})
				}
				n = r.Intn(4)
			}
			for i := 0; i < n; i++ {
				x.seq[ci]++
				sz := x.size()
				if r.Bool(1, 2) {
					sz = 1500 + r.Intn(3000)
				}
				if resume && r.Bool(2, 3) {
					sz = 8500 + r.Intn(12000)
				}
				op := Op{K: "pub", Topic: topic, QoS: byte(r.Intn(3)), Size: sz, Seq: x.seq[ci], NoWait: r.Bool(1, 2)}
				if op.QoS > 0 {
					op.PID = x.nextPID(ci)
				}
				if op.QoS == 2 {
					op.NoWait = false
				}
				cl.Ops = append(cl.Ops, op)
			}
			cl.Ops = append(cl.Ops, Op{K: "ping"}, Op{K: "barrier"})
			x.sc.Clients = append(x.sc.Clients, cl)
		}
		if r.Bool(1, 3) {
			for i := 0; i < 4; i++ {
				x.inSeq++
				x.sc.Inproc = append(x.sc.Inproc, InprocOp{K: "pub", Topic: "f/inproc", QoS: byte(r.Intn(3)), Size: 1000 + r.Intn(3000), Seq: x.inSeq})
			}
		}
		return x.sc
	}
}

// connectScript wraps a first packet into a C11 script: witness, attacker,
// prober with the attacker's client identifier.
func connectScript(x *g, cid string, first []byte, authn string) *Script {
	x.sc.Profile = "connect"
	x.knobs()
	x.sc.Knobs.LinkCap = 65536
	x.sc.Knobs.Authenticator = authn
	x.alphabet(false)
	x.seq = make([]int, 3)
	x.pid = make([]int, 3)
	w := Client{Role: "witness"}
	wc := x.connect(0, true)
	wc.Auth, wc.User, wc.Pass = true, "w", "secret-w"
	w.Ops = append(w.Ops, wc, Op{K: "sub", PID: 1, Filters: []string{"#"}, QoSs: []byte{2}}, Op{K: "barrier"}, Op{K: "barrier"}, Op{K: "barrier"}, Op{K: "ping"})
	a := Client{Role: "attacker"}
	a.Ops = append(a.Ops, Op{K: "barrier"}, Op{K: "open"}, Op{K: "raw", Raw: first})
	a.Ops = append(a.Ops, Op{K: "raw", Raw: refmqtt.Encode(&refmqtt.Packet{Type: refmqtt.SUBSCRIBE, ID: 7, Filters: []string{"#"}, QoSs: []byte{1}})})
	a.Ops = append(a.Ops, Op{K: "raw", Raw: refmqtt.Encode(&refmqtt.Packet{Type: refmqtt.PUBLISH, Topic: "c11/r1", Retain: true, Payload: payload(1, 1, 16)})})
	a.Ops = append(a.Ops, Op{K: "sleep", D: 3000}, Op{K: "close"}, Op{K: "barrier"}, Op{K: "barrier"})
	pr := Client{Role: "prober"}
	pc := Op{K: "connect", CID: cid, Clean: false, KA: 600, Auth: true, User: "p", Pass: "secret-p"}
	pr.Ops = append(pr.Ops, Op{K: "barrier"}, Op{K: "barrier"}, pc, Op{K: "sub", PID: 1, Filters: []string{"#"}, QoSs: []byte{1}}, Op{K: "ping"}, Op{K: "barrier"})
	x.sc.Clients = append(x.sc.Clients, w, a, pr)
	return x.sc
}

// enumConnect enumerates every CONNECT flags byte (with exactly the payload
// fields the flags announce), the protocol name/level variants, and each of
// the other 13 packet types as first packet.
func enumConnect(tier string) []interface{} {
	var out []interface{}
	n := 0
	mk := func(first []byte, authn string) {
		n++
		x := &g{r: simrt.NewRand(uint64(n) * 104729), sc: &Script{}, tier: tier}
		out = append(out, connectScript(x, "enum", first, authn))
	}
	for flags := 0; flags < 256; flags++ {
		p := &refmqtt.Packet{Type: refmqtt.CONNECT, ClientID: "enum", KeepAlive: 60, ConnFlags: byte(flags), WillTopic: "c11/will", WillMessage: payload(srcWill+1, 950, 12), User: "u1", Pass: []byte("secret-u1")}
		if flags == 0 {
			// Encode derives the flags when ConnFlags is 0: CleanSession=0, nothing else
			p.ConnFlags = 0
		}
		authn := ""
		if flags&0xc0 == 0xc0 && flags%2 == 0 {
			authn = "verifPass"
		}
		mk(refmqtt.Encode(p), authn)
	}
	for _, pv := range []struct {
		name  string
		level byte
	}{{"MQTT", 4}, {"MQIsdp", 3}, {"MQTT", 3}, {"MQTT", 5}, {"MQIsdp", 4}, {"MQTX", 4}, {"", 4}} {
		mk(refmqtt.Encode(&refmqtt.Packet{Type: refmqtt.CONNECT, ClientID: "enum", KeepAlive: 60, ConnFlags: 2, ProtoName: pv.name, ProtoLevel: pv.level}), "")
	}
	for t := byte(2); t <= 14; t++ {
		mk(refmqtt.Encode(samplePacket(t, int(t))), "")
	}
	// a CONNECT with will, user name and password and every remaining length
	// smaller than the real one (the packet ends inside or right behind any of
	// its fields), the cut-off bytes following at once; and the same CONNECT
	// with 1-3 surplus bytes inside the remaining length
	full := refmqtt.Encode(&refmqtt.Packet{Type: refmqtt.CONNECT, ClientID: "enum", CleanSession: true, KeepAlive: 60, WillFlag: true, WillQoS: 1, WillTopic: "c11/will", WillMessage: payload(srcWill+1, 951, 12), HasUser: true, HasPass: true, User: "u1", Pass: []byte("secret-u1")})
	if full[1] < 0x7c {
		for rl := 0; rl < int(full[1]); rl++ {
			c := append([]byte{}, full...)
			c[1] = byte(rl)
			mk(c, "")
		}
		for extra := 1; extra <= 3; extra++ {
			c := append([]byte{}, full...)
			c[1] += byte(extra)
			for i := 0; i < extra; i++ {
				c = append(c, byte(0x30+i))
			}
			mk(c, "")
		}
	}
	return out
}
