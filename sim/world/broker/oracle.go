package broker

import (
	"fmt"
	"sort"
	"strings"

	"verif/sim/refmqtt"
	"verif/sim/simrt"
)

func (r *run) viol(prop, inv, sig, format string, a ...interface{}) {
	if r.sc.Profile == "witness" && r.cur != nil {
		// C05: the traffic of the witness connections must stay exact whatever
		// the attackers do; what the general oracles find on a witness
		// connection is a C05 violation in this profile
		switch prop {
		case "C01", "C02", "C07", "C08", "C17", "C19":
			if r.sc.Clients[r.cur.Client].Role == "witness" {
				sig = "C05/witness/" + sig
				prop = "C05"
			}
		}
	}
	r.out.Add(prop, inv, sig, fmt.Sprintf(format, a...))
}

func crashSig(msg, stack string) string {
	// normalise: message without addresses + innermost library frame
	msg = strings.Split(msg, "\n")[0]
	if i := strings.Index(msg, "0x"); i > 0 {
		msg = msg[:i]
	}
	if len(msg) > 80 {
		msg = msg[:80]
	}
	fn := ""
	for _, l := range strings.Split(stack, "\n") {
		if strings.HasPrefix(l, "github.com/mdzio/go-mqtt/") {
			fn = strings.TrimPrefix(l, "github.com/mdzio/go-mqtt/")
			if k := strings.Index(fn, "("); k > 0 {
				fn = fn[:k]
			}
			break
		}
	}
	return strings.TrimSpace(msg) + "@" + fn
}

func judge(r *run, res *simrt.Result) {
	h := r.h
	out := r.out
	if res.Status == simrt.StatusCrash {
		r.viol("C05", "process-crash", "C05/crash/"+crashSig(res.CrashMsg, res.CrashStack), "a panic reached the top of goroutine %q (the broker process would have died): %s\n%s", res.CrashTask, res.CrashMsg, trim(res.CrashStack, 1800))
		return
	}
	if out.Aborted != "" {
		return
	}
	m := analyze(h)
	r.m = m
	out.Summary["clients"] = len(h.Script.Clients)
	out.Summary["connections"] = len(h.Conns)
	out.Summary["publishes"] = len(m.Pubs)
	out.Summary["subscriptions"] = len(m.Grants)
	out.Summary["deliveries"] = len(m.Deliv)
	out.Summary["profile"] = h.Script.Profile
	out.Summary["knobs"] = h.Script.Knobs
	out.Nontrivial = len(m.Deliv) > 0 || len(h.Conns) > 1
	if len(m.racedIDs()) > 0 {
		// a client identifier reconnected while its previous connection was
		// still being torn down: both connections share one session object
		out.Summary["run_tag"] = "immediate-reconnect"
	}
	r.checkFraming(m)
	r.checkResponses(m)
	r.checkRouting(m)
	r.checkOrder(m)
	r.checkTeardown(m)
	r.checkInnocent(m)
	r.checkRetained(m)
	r.checkReceiver(m)
	r.checkSessions(m)
	r.checkConnect(m)
	r.checkKeepAlive(m)
	r.checkSenderIDs(m)
	r.relabel()
}

// relabel maps violations of the general oracles to the property whose
// statement they fall under in this profile (e.g. a subscription that does not
// take effect is a routing violation in general and a C07 violation when the
// profile is about SUBSCRIBE/UNSUBSCRIBE taking effect).
func (r *run) relabel() {
	var from []string
	to := ""
	switch r.sc.Profile {
	case "suback":
		from, to = []string{"C01"}, "C07"
	case "session":
		from, to = []string{"C01"}, "C10"
	case "keepalive":
		from, to = []string{"C05", "C09"}, "C19"
	case "teardown":
		// "its will is dealt with" is part of C16's statement
		from, to = []string{"C09"}, "C16"
	case "connect":
		from, to = []string{"C01", "C08", "C09", "C10"}, "C11"
	}
	if to == "" {
		return
	}
	if r.sc.Profile == "connect" && r.uncertainAcceptance() {
		// Some connection sent a CONNECT the broker may accept and was closed by
		// the client before a single byte of the answer reached it (the first
		// write to a peer that has gone away succeeds without being delivered).
		// The broker may have accepted it - then its session, will, subscriptions
		// and publishes are legitimate - or not; the history cannot tell, so the
		// side-effect oracles, which assume that it was never accepted, do not
		// apply to this run (the CONNACK table and the close oracle still do).
		kept := r.out.Violations[:0]
		for _, v := range r.out.Violations {
			drop := false
			for _, f := range from {
				if v.Prop == f {
					drop = true
				}
			}
			if !drop {
				kept = append(kept, v)
			}
		}
		r.out.Violations = kept
		r.out.Summary["run_tag"] = "acceptance-not-observable"
		return
	}
	tag := ""
	if r.sc.Profile == "connect" && r.malformedAccepted != "" {
		// the session, subscriptions and publishes of a connection that was
		// accepted on a malformed CONNECT are not in the model
		tag = "/malformed-connect-accepted" + r.malformedAccepted
	}
	if r.sc.Profile == "session" && r.m != nil && len(r.m.racedIDs()) > 0 {
		// some identifier reconnected while its old connection was still being
		// torn down: session state may be shared or deleted late (known defect)
		tag = "/immediate-reconnect"
	}
	for i := range r.out.Violations {
		v := &r.out.Violations[i]
		for _, f := range from {
			if v.Prop == f {
				v.Sig = to + "/via-" + v.Sig + tag
				v.Prop = to
			}
		}
	}
}

// uncertainAcceptance: a connection whose first packet is a well-formed CONNECT
// that the broker may answer with code 0, from which the client saw nothing
// (no byte of a CONNACK on the wire) before it closed or reset it.
func (r *run) uncertainAcceptance() bool {
	for _, c := range r.h.Conns {
		if len(c.Down) > 0 || c.downS.Pending() > 0 || !c.ClientEnded || len(c.Up) == 0 {
			continue
		}
		first := c.Up[0].P
		// (c.Up holds strictly parsed packets only: a CONNECT there is well-formed)
		if first.Type != refmqtt.CONNECT {
			continue
		}
		if codes, _, _ := r.expectConnect(first); codes[0] {
			return true
		}
	}
	return false
}

func trim(s string, n int) string {
	if len(s) > n {
		return s[:n] + "…"
	}
	return s
}

// ---------------------------------------------------------------- C17 framing

func (r *run) checkFraming(m *Model) {
	defer func() { r.cur = nil }()
	for _, c := range m.H.Conns {
		r.cur = c
		if c.DownErr != nil {
			r.viol("C17", "strict-parse", "C17/malformed-output/"+errClass(c.DownErr), "the broker wrote bytes that are not a sequence of well-formed MQTT packets on connection %d (client %d): %v; %d packets parsed before", c.Idx, c.Client, c.DownErr, len(c.Down))
		}
		if n := c.downS.Pending(); n > 0 && c.DownErr == nil && !c.nc.PeerClosed() && !c.ClientEnded && !c.Dead {
			r.viol("C17", "partial-packet", "C17/partial-packet-at-quiescence", "at final quiescence the broker had written an incomplete packet (%d bytes) on open connection %d", n, c.Idx)
		}
	}
}

func errClass(err error) string {
	s := err.Error()
	if i := strings.Index(s, "malformed packet: "); i >= 0 {
		s = s[i+len("malformed packet: "):]
	}
	if i := strings.Index(s, " (bytes"); i >= 0 {
		s = s[:i]
	}
	// drop numbers and quoted strings
	var b strings.Builder
	inq := false
	for _, ch := range s {
		if ch == '"' {
			inq = !inq
			continue
		}
		if inq || (ch >= '0' && ch <= '9') {
			continue
		}
		b.WriteRune(ch)
	}
	out := strings.Join(strings.Fields(b.String()), "-")
	if len(out) > 60 {
		out = out[:60]
	}
	return out
}

// ---------------------------------------------------------------- C07 / C02 / C19 responses

func propOfRequest(t byte) string {
	switch t {
	case refmqtt.SUBSCRIBE, refmqtt.UNSUBSCRIBE:
		return "C07"
	case refmqtt.PINGREQ:
		return "C19"
	case refmqtt.PUBREC:
		return "C12"
	}
	return "C02"
}

func validTopicName(t string) bool {
	return len(t) > 0 && !strings.ContainsAny(t, "+#")
}

func (r *run) checkResponses(m *Model) {
	maxq := m.H.Script.Knobs.MaxQoS
	defer func() { r.cur = nil }()
	for _, c := range m.H.Conns {
		r.cur = c
		if !accepted(c) {
			continue
		}
		if mm, ok := m.RespMismatch[c]; ok {
			// attribute to the kind of the first unanswered request
			prop := "C02"
			for _, rq := range m.Reqs[c] {
				if rq.Resp == nil {
					prop = propOfRequest(rq.W.P.Type)
					break
				}
			}
			r.viol(prop, "response-stream", prop+"/response-mismatch/"+refmqtt.TypeName(firstUnanswered(m.Reqs[c])), "connection %d: %s", c.Idx, mm)
			continue
		}
		closedByBroker, _, _ := brokerClosed(c)
		// the broker can only answer what it was able to read: if the client
		// ended the connection, requests written shortly before may be lost
		for _, rq := range m.Reqs[c] {
			p := rq.W.P
			prop := propOfRequest(p.Type)
			if rq.Resp == nil {
				if closedByBroker {
					continue // "unless the broker closes the connection instead"
				}
				if c.ClientEnded && c.EndKind != "final" {
					// the client went away; only judge requests that certainly
					// reached the processor: those followed by an answered one
					if m.laterResponse(c, rq.W) == inf {
						continue
					}
				}
				if c.UpErr != nil {
					continue
				}
				r.viol(prop, "never-answered", prop+"/never-answered/"+refmqtt.TypeName(p.Type)+reqClass(p), "connection %d stayed open but %s was never answered with %s (silently dropped)", c.Idx, p, refmqtt.TypeName(rq.Want))
				continue
			}
			if p.Type == refmqtt.SUBSCRIBE {
				codes := rq.Resp.P.QoSs
				if len(codes) != len(p.Filters) {
					r.viol("C07", "suback-count", "C07/suback-count", "connection %d: %s answered by SUBACK with %d return codes %v", c.Idx, p, len(codes), codes)
					continue
				}
				for i, f := range p.Filters {
					q := p.QoSs[i]
					switch {
					case !refmqtt.ValidFilter(f):
						if codes[i] != 0x80 {
							r.viol("C07", "suback-code", "C07/suback-code/invalid-filter-granted", "connection %d: invalid filter %q (position %d of %v) got return code %#x, expected 0x80", c.Idx, f, i, p.Filters, codes[i])
						}
					case q > 2:
						if codes[i] != 0x80 && codes[i] != maxq {
							r.viol("C07", "suback-code", "C07/suback-code/bad-qos", "connection %d: filter %q with out-of-range QoS %d got return code %#x", c.Idx, f, q, codes[i])
						}
					default:
						want := q
						if want > maxq {
							want = maxq
						}
						if codes[i] != want {
							r.viol("C07", "suback-code", fmt.Sprintf("C07/suback-code/valid/want%d-got%#x", want, codes[i]), "connection %d: filter %q requested QoS %d (server maximum %d, position %d of %v) got return code %#x, expected %d", c.Idx, f, q, maxq, i, p.Filters, codes[i], want)
						}
					}
				}
			}
		}
	}
}

func firstUnanswered(reqs []*Req) byte {
	for _, rq := range reqs {
		if rq.Resp == nil {
			return rq.W.P.Type
		}
	}
	return 0
}

func reqClass(p *refmqtt.Packet) string {
	if p.Type != refmqtt.SUBSCRIBE && p.Type != refmqtt.UNSUBSCRIBE {
		return ""
	}
	cls := "/valid"
	for i, f := range p.Filters {
		if !refmqtt.ValidFilter(f) {
			cls = "/invalid-filter"
		} else if p.Type == refmqtt.SUBSCRIBE && p.QoSs[i] > 2 && cls == "/valid" {
			cls = "/bad-qos"
		}
	}
	if len(p.Filters) > 3 && cls == "/valid" {
		cls = "/valid-many"
	}
	return cls
}

// ---------------------------------------------------------------- C01 routing

func subscriberName(c *Conn, cb int) string {
	if c != nil {
		return fmt.Sprintf("connection %d (client %d)", c.Idx, c.Client)
	}
	return fmt.Sprintf("in-process subscriber %d", cb)
}

type subKey struct {
	c  *Conn
	cb int
}

func minq(a, b byte) byte {
	if a < b {
		return a
	}
	return b
}

// assign tries to map each copy (by QoS) to a distinct filter whose allowed
// QoS set contains it.
func assign(copies []byte, allowed []map[byte]bool) bool {
	if len(copies) == 0 {
		return true
	}
	used := make([]bool, len(allowed))
	var rec func(i int) bool
	rec = func(i int) bool {
		if i == len(copies) {
			return true
		}
		for j, a := range allowed {
			if !used[j] && a[copies[i]] {
				used[j] = true
				if rec(i + 1) {
					return true
				}
				used[j] = false
			}
		}
		return false
	}
	return rec(0)
}

func (r *run) checkRouting(m *Model) {
	// group pubs by key; keys published more than once (DUP repeats of QoS 1)
	// are judged by the C02 oracle only
	byKey := map[string][]*Pub{}
	for _, p := range m.Pubs {
		byKey[p.Key] = append(byKey[p.Key], p)
	}
	grantsBy := map[subKey][]*Grant{}
	for _, g := range m.Grants {
		k := subKey{g.C, g.CB}
		grantsBy[k] = append(grantsBy[k], g)
	}
	delivBy := map[string][]*Delivery{}
	defer func() { r.cur = nil }()
	for _, d := range m.Deliv {
		if d.Retain {
			continue // retained deliveries: C08
		}
		r.cur = d.C
		if !d.Intact && len(byKey[d.Key]) > 0 {
			d.Intact = true // byte-identical to a raw payload somebody published
		}
		if !d.Intact {
			r.viol("C01", "payload-intact", "C01/corrupt-delivery", "%s received a PUBLISH on %q whose payload (%d bytes) is not byte-identical to any published message (claims source %d seq %d)", subscriberName(d.C, d.CB), d.Topic, len(d.Payload), d.Src, d.Seq)
			continue
		}
		delivBy[d.Key] = append(delivBy[d.Key], d)
	}
	keys := make([]string, 0, len(delivBy))
	for k := range delivBy {
		keys = append(keys, k)
	}
	sort.Strings(keys)
	for _, k := range keys {
		if len(byKey[k]) == 0 {
			d := delivBy[k][0]
			r.cur = d.C
			if d.Src >= srcWill && d.Src < srcInproc {
				if m.ExemptWills[k] {
					continue
				}
				cause := "?"
				for _, c := range m.H.Conns {
					if len(c.Up) > 0 && c.Up[0].P.Type == refmqtt.CONNECT && c.Up[0].P.WillFlag {
						if ws, wq, ok := identify(c.Up[0].P.WillMessage); ok && ws == d.Src && wq == d.Seq {
							cause = m.EndCause(c)
							if !accepted(c) {
								cause = "never-accepted"
							}
						}
					}
				}
				r.viol("C09", "will-only-on-abnormal-end", "C09/will-published-unexpectedly/"+cause, "%s received the will of connection %d (topic %q) although that connection ended by %s (or its will was replaced by a later CONNECT)", subscriberName(d.C, d.CB), d.Seq, d.Topic, cause)
				continue
			}
			r.viol("C01", "unknown-message", "C01/unknown-message", "%s received a message (key %s, topic %q) that nobody published", subscriberName(d.C, d.CB), k, d.Topic)
		}
	}
	subs := make([]subKey, 0, len(grantsBy))
	for k := range grantsBy {
		subs = append(subs, k)
	}
	// also subscribers that received something without any grant
	seen := map[subKey]bool{}
	for _, k := range subs {
		seen[k] = true
	}
	for _, d := range m.Deliv {
		k := subKey{d.C, d.CB}
		if !seen[k] {
			seen[k] = true
			subs = append(subs, k)
		}
	}
	sort.Slice(subs, func(i, j int) bool {
		a, b := subs[i], subs[j]
		ai, bi := -1, -1
		if a.c != nil {
			ai = a.c.Idx
		}
		if b.c != nil {
			bi = b.c.Idx
		}
		if ai != bi {
			return ai < bi
		}
		return a.cb < b.cb
	})
	for _, p := range m.Pubs {
		if len(byKey[p.Key]) > 1 {
			continue
		}
		prop := "C01"
		if p.Will {
			prop = "C09"
		}
		for _, sk := range subs {
			r.cur = sk.c
			var copies []*Delivery
			for _, d := range delivBy[p.Key] {
				if d.C == sk.c && d.CB == sk.cb {
					copies = append(copies, d)
				}
			}
			// per filter: allowed QoS values of possibly-held matching grants
			allowed := map[string]map[byte]bool{}
			certain := false
			if !p.Never {
				for _, g := range grantsBy[sk] {
					if !refmqtt.ValidFilter(g.Filter) || !refmqtt.Match(g.Filter, p.Topic) {
						continue
					}
					if g.PLo <= p.Hi && p.Lo <= g.PHi {
						a := allowed[g.Filter]
						if a == nil {
							a = map[byte]bool{}
							allowed[g.Filter] = a
						}
						if g.QoS == 0xff {
							a[0], a[1], a[2] = true, true, true
						} else {
							a[minq(p.QoS, g.QoS)] = true
						}
					}
					if p.Certain && g.CLo <= p.Lo && p.Hi <= g.CHi && m.flushed(g.C, p.Hi) {
						certain = true
					}
				}
			}
			who := subscriberName(sk.c, sk.cb)
			for _, d := range copies {
				if d.Topic != p.Topic {
					r.viol(prop, "topic-identical", prop+"/wrong-topic", "%s received message %s on topic %q, it was published on %q", who, p.Key, d.Topic, p.Topic)
				}
				if d.Stamp < p.Lo {
					r.viol(prop, "causality", prop+"/delivered-before-accept", "%s received message %s (stamp %d) before the broker could have accepted it (window starts %d)", who, p.Key, d.Stamp, p.Lo)
				}
			}
			if len(copies) > 0 && len(allowed) == 0 {
				why := "it holds no matching subscription"
				if p.Never {
					why = "the QoS 2 exchange was never released by a PUBREL"
				}
				r.viol(prop, "no-matching-subscription", prop+"/delivered-without-subscription"+neverTag(p)+emptyLevelTag(p, grantsBy[sk]), "%s received message %s (topic %q, publish QoS %d) although %s; its subscriptions: %s", who, p.Key, p.Topic, p.QoS, why, fmtGrants(grantsBy[sk]))
				continue
			}
			if len(copies) > len(allowed) {
				r.viol(prop, "at-most-once-per-subscription", prop+"/too-many-copies"+emptyLevelTag(p, grantsBy[sk]), "%s received %d copies of message %s (topic %q) but holds at most %d matching subscription(s): %s", who, len(copies), p.Key, p.Topic, len(allowed), fmtGrants(grantsBy[sk]))
				continue
			}
			var qs []byte
			for _, d := range copies {
				qs = append(qs, d.QoS)
			}
			var al []map[byte]bool
			fs := make([]string, 0, len(allowed))
			for f := range allowed {
				fs = append(fs, f)
			}
			sort.Strings(fs)
			for _, f := range fs {
				al = append(al, allowed[f])
			}
			if !assign(qs, al) {
				r.viol(prop, "delivery-qos", prop+"/wrong-qos"+emptyLevelTag(p, grantsBy[sk]), "%s received message %s (publish QoS %d) at QoS %v; matching subscriptions: %s", who, p.Key, p.QoS, qs, fmtGrants(grantsBy[sk]))
			}
			if certain && len(copies) == 0 {
				// an in-process callback invoked with the retain flag inside a
				// matching Subscribe call may equally be the live forward
				ambiguous := false
				for _, d := range m.Deliv {
					if d.Retain && d.C == nil && sk.c == nil && d.CB == sk.cb && d.Key == p.Key {
						ambiguous = true
					}
				}
				if ambiguous {
					continue
				}
				r.viol(prop, "at-least-once", prop+"/missing-delivery"+willCause(m, p)+emptyTag(p)+r.oversizeTag(p)+emptyLevelTag(p, grantsBy[sk]), "%s holds a matching subscription for the whole time in which the broker accepted message %s (topic %q, QoS %d, %d bytes, window [%d,%d]) but never received it; subscriptions: %s", who, p.Key, p.Topic, p.QoS, len(p.Payload), p.Lo, p.Hi, fmtGrants(grantsBy[sk]))
			}
		}
	}
}

func hasEmptyLevel(t string) bool {
	return strings.HasPrefix(t, "/") || strings.HasSuffix(t, "/") || strings.Contains(t, "//")
}

// emptyLevelTag marks violations whose inputs involve an empty topic level
// (the trigger of a known defect of the topic tree), so that they carry their
// own signature.
func emptyLevelTag(p *Pub, gs []*Grant) string {
	if hasEmptyLevel(p.Topic) {
		return "/empty-level"
	}
	for _, g := range gs {
		if hasEmptyLevel(g.Filter) {
			return "/empty-level"
		}
		// an UNSUBSCRIBE naming a filter with an empty level removes other
		// subscriptions of the same subscriber (same defect)
		if g.C != nil {
			for _, w := range g.C.Up {
				if w.P.Type == refmqtt.UNSUBSCRIBE || w.P.Type == refmqtt.SUBSCRIBE {
					for _, f := range w.P.Filters {
						if hasEmptyLevel(f) {
							return "/empty-level"
						}
					}
				}
			}
		}
	}
	return ""
}

// flushed reports whether connection c stayed open until a quiescence point
// (no stalled reader, nothing unread) at or after stamp st: only then must
// everything the broker queued for it before st have reached the wire.
func (m *Model) flushed(c *Conn, st int64) bool {
	if c == nil {
		return true
	}
	end := connCertainEnd(c)
	for _, q := range m.Q {
		if q >= st && q <= end {
			return true
		}
	}
	return false
}

func willCause(m *Model, p *Pub) string {
	if !p.Will {
		return ""
	}
	return "/" + m.EndCause(p.C)
}

func neverTag(p *Pub) string {
	if p.Never {
		return "/unreleased-qos2"
	}
	return ""
}

func emptyTag(p *Pub) string {
	if len(p.Payload) == 0 {
		return "/empty-payload"
	}
	return ""
}

// oversizeTag marks a will that is larger than a connection's ring even
// without a packet identifier: it can be accepted (CONNECT is not read through
// the ring) but never be written to a subscriber (known finding).
func (r *run) oversizeTag(p *Pub) string {
	if p.Will && 1+3+2+len(p.Topic)+len(p.Payload) > r.sc.Knobs.BufSize+3 {
		return "/will-larger-than-ring"
	}
	return ""
}

func fmtGrants(gs []*Grant) string {
	var parts []string
	for _, g := range gs {
		parts = append(parts, fmt.Sprintf("{%q q%d possible[%s,%s] certain[%s,%s]}", g.Filter, g.QoS, st(g.PLo), st(g.PHi), st(g.CLo), st(g.CHi)))
	}
	if len(parts) == 0 {
		return "none"
	}
	return strings.Join(parts, " ")
}

func st(v int64) string {
	if v == inf {
		return "inf"
	}
	return fmt.Sprint(v)
}

// ---------------------------------------------------------------- C17 order

func (r *run) checkOrder(m *Model) {
	pubQoS := map[string]byte{}
	pubConn := map[string]int{}
	multi := map[string]bool{}
	for _, p := range m.Pubs {
		if _, dup := pubQoS[p.Key]; dup {
			multi[p.Key] = true
		}
		pubQoS[p.Key] = p.QoS
		pubConn[p.Key] = -1
		if p.C != nil {
			// order is promised per publisher connection, not across reconnects
			pubConn[p.Key] = p.C.Idx
		}
	}
	type ok struct {
		sub   subKey
		src   int
		conn  int
		topic string
		q     byte
	}
	last := map[ok]int{}
	defer func() { r.cur = nil }()
	for _, d := range m.Deliv {
		if d.Retain || !d.Intact || len(d.Payload) == 0 || multi[d.Key] {
			continue
		}
		q, known := pubQoS[d.Key]
		if !known {
			continue
		}
		k := ok{subKey{d.C, d.CB}, d.Src, pubConn[d.Key], d.Topic, q}
		r.cur = d.C
		if prev, seen := last[k]; seen && d.Seq < prev {
			r.viol("C17", "publisher-order", "C17/out-of-order", "%s received message seq %d after seq %d from publisher %d on topic %q (publish QoS %d)", subscriberName(d.C, d.CB), d.Seq, prev, d.Src, d.Topic, q)
		}
		if d.Seq > last[k] || !hasKey(last, k) {
			last[k] = d.Seq
		}
	}
}

func hasKey[K comparable, V any](m map[K]V, k K) bool { _, ok := m[k]; return ok }

// ---------------------------------------------------------------- C16 teardown (basic part)

func (r *run) checkTeardown(m *Model) {
	h := m.H
	// at every valid quiescence point (no stalled reader, nothing unread) the
	// goroutines of every connection that has ended are gone: what remains is
	// one processor, receiver and sender per connection that is still open
	for _, q := range h.QTasks {
		open, pending := 0, 0
		for _, c := range h.Conns {
			if c.OpenStamp > q.Stamp {
				continue
			}
			bc, bcStamp, _ := brokerClosed(c)
			ended := (c.ClientEnded && c.EndStamp < q.Stamp) || (bc && bcStamp < q.Stamp)
			if ended {
				continue
			}
			if accepted(c) && c.Down[0].Last < q.Stamp {
				open++
			} else {
				pending++
			}
		}
		counts := map[string]int{}
		for _, t := range q.Tasks {
			counts[siteOf(t.Name)]++
		}
		for _, role := range []string{"processor", "receiver", "sender"} {
			if counts[role] > open {
				r.viol("C16", "goroutines-exit", "C16/leftover-at-quiescence/"+role, "at the quiescence point with stamp %d (%.3fs) only %d accepted connection(s) are still open but %d %s goroutine(s) are alive: the teardown of an ended connection has not finished although no open connection is stalled; tasks: %s; held locks: %v", q.Stamp, float64(q.VT)/1e9, open, counts[role], role, simrt.FormatTasks(q.Tasks), q.Held)
				return
			}
		}
		if counts["handleConnection"] > pending {
			r.viol("C16", "goroutines-exit", "C16/leftover-at-quiescence/handleConnection", "at the quiescence point with stamp %d %d handleConnection goroutine(s) are alive but only %d connection(s) are waiting to be accepted; tasks: %s", q.Stamp, counts["handleConnection"], pending, simrt.FormatTasks(q.Tasks))
			return
		}
	}
	if r.sc.Profile == "teardown" && !h.Script.Knobs.CloseServer && len(h.LeftAfterClients) == 0 && h.SessionsLeft >= 0 && (r.m == nil || len(r.m.racedIDs()) == 0) {
		// every connection has ended: the store holds exactly the sessions
		// whose (only) connection was accepted with CleanSession=0
		want := 0
		for _, c := range h.Conns {
			if accepted(c) && len(c.Up) > 0 && c.Up[0].P.Type == refmqtt.CONNECT && !c.Up[0].P.CleanSession {
				want++
			}
		}
		if h.SessionsLeft != want {
			r.viol("C16", "clean-session-discarded", fmt.Sprintf("C16/sessions-left/got%d-want%d", h.SessionsLeft, want), "every connection has ended and its teardown has finished; the session store holds %d session(s), but %d connection(s) were accepted with CleanSession=0 (a clean session must be discarded with its connection, a persistent one kept)", h.SessionsLeft, want)
		}
	}
	if len(h.LeftSubs) > 0 && len(h.LeftAfterClients) == 0 && len(h.Script.Inproc) == 0 {
		tag := ""
		for _, l := range h.LeftSubs {
			if hasEmptyLevel(l.Filter) {
				tag = "/empty-level"
			}
		}
		if r.m != nil && len(r.m.racedIDs()) > 0 {
			tag += "/immediate-reconnect"
		}
		l := h.LeftSubs[0]
		r.viol("C16", "subscriptions-removed", "C16/subscription-left-in-topic-tree"+tag, "every connection has ended and its teardown has finished, but the topic tree still holds %d subscriber(s) for topic %q (filter %q of the script): the subscription of a dead connection keeps receiving; all leftovers: %v", l.N, l.Topic, l.Filter, h.LeftSubs)
	}
	if len(h.LeftAfterClients) > 0 && !h.Script.Knobs.CloseServer {
		t := h.LeftAfterClients[0]
		r.viol("C16", "goroutines-exit", "C16/leftover-after-clients-gone/"+siteOf(t.Name)+"/"+t.Wait, "every client connection has ended and the broker is quiescent, but %d library goroutine(s) remain: %s; held locks: %v", len(h.LeftAfterClients), simrt.FormatTasks(h.LeftAfterClients), h.HeldAtEnd)
	}
	if h.ServerCloseCall > 0 && h.ServerClosed && !h.ServerClosedAtQ {
		r.viol("C16", "server-close-returns", "C16/server-close-waits-for-stalled-peer", "Server.Close had not returned when the broker became quiescent (it returned only after the stalled readers were resumed): Close ends every connection itself, a peer that has stopped reading must not hold it up; tasks at that point: %s", h.CloseStuck)
	}
	if h.ServerCloseCall > 0 && !h.ServerClosed {
		r.viol("C16", "server-close-returns", "C16/server-close-hangs", "Server.Close did not return; tasks: %s; held locks: %v", simrt.FormatTasks(h.LeftAtEnd), h.HeldAtEnd)
	} else if len(h.LeftAtEnd) > 0 {
		t := h.LeftAtEnd[0]
		r.viol("C16", "goroutines-exit", "C16/leftover-after-server-close/"+siteOf(t.Name)+"/"+t.Wait, "Server.Close returned and all connections have ended, but %d library goroutine(s) remain: %s", len(h.LeftAtEnd), simrt.FormatTasks(h.LeftAtEnd))
	}
	if h.ServeReturned && (h.ServerCloseCall == 0 || h.ServeRetStamp < h.ServerCloseCall) {
		r.viol("C05", "keeps-serving", "C05/listen-and-serve-returned", "ListenAndServe returned (%q) although nobody had closed the server (%d temporary accept errors were injected, %d later connection attempts were refused): the broker stopped accepting clients", h.ServeErr, r.s.FaultCount("accept_error"), h.DialRefused)
	}
	if h.ServerClosed && !h.ServeReturned {
		r.viol("C16", "serve-returns", "C16/listen-and-serve-hangs", "ListenAndServe did not return after Server.Close")
	}
}

func siteOf(name string) string {
	// "processor@service/service.go:186" -> "processor"
	if i := strings.Index(name, "@"); i > 0 {
		return name[:i]
	}
	return name
}

// ---------------------------------------------------------------- C05 innocent connections stay open

// wellBehaved reports whether everything the client sent on c is valid MQTT
// that no broker may answer by closing the connection, and the first reason
// if not.
func (r *run) wellBehaved(c *Conn) (bool, string) {
	if c.UpErr != nil {
		return false, "malformed bytes"
	}
	if c.upS.Pending() > 0 {
		return false, "incomplete packet"
	}
	limit := r.sc.Knobs.BufSize - 8192
	if r.sc.Knobs.BufSize == 0 {
		limit = 262144 - 8192
	}
	for i, w := range c.Up {
		p := w.P
		if len(p.Raw) > limit {
			return false, "packet larger than the packet limit"
		}
		switch p.Type {
		case refmqtt.CONNECT:
			if i != 0 {
				return false, "second CONNECT"
			}
		case refmqtt.PUBLISH:
			if !validTopicName(p.Topic) || p.Topic[0] == '$' {
				return false, "invalid topic name"
			}
		case refmqtt.SUBSCRIBE:
			for j, f := range p.Filters {
				if !refmqtt.ValidFilter(f) || p.QoSs[j] > 2 || f[0] == '$' {
					return false, "invalid subscription"
				}
			}
		case refmqtt.UNSUBSCRIBE:
			for _, f := range p.Filters {
				if !refmqtt.ValidFilter(f) {
					return false, "invalid filter"
				}
			}
		case refmqtt.CONNACK, refmqtt.SUBACK, refmqtt.UNSUBACK, refmqtt.PINGRESP:
			return false, "server-to-client packet type"
		}
		if i == 0 && p.Type != refmqtt.CONNECT {
			return false, "first packet is not CONNECT"
		}
	}
	return true, ""
}

func (r *run) checkInnocent(m *Model) {
	h := m.H
	for _, c := range h.Conns {
		bc, bcStamp, bcVT := brokerClosed(c)
		if !accepted(c) || !bc {
			continue
		}
		// the broker ended this connection
		if h.ServerCloseCall > 0 && bcStamp > h.ServerCloseCall {
			continue
		}
		if ok, _ := r.wellBehaved(c); !ok {
			continue
		}
		if m.EndCause(c) == "disconnect" {
			continue // the client asked for it
		}
		// keep-alive: silence of at least the negotiated keep-alive justifies it
		if len(c.Up) == 0 || c.Up[0].P.Type != refmqtt.CONNECT {
			continue
		}
		ka := int64(c.Up[0].P.KeepAlive)
		if ka == 0 {
			continue
		}
		lastUp := c.OpenVT
		for _, t := range c.UpVT {
			// (bytes sent at the very instant of the close tie with the
			// deadline timer: they do not count as earlier activity)
			if t < bcVT {
				lastUp = t
			}
		}
		if bcVT-lastUp >= ka*1e9 {
			continue
		}
		r.viol("C05", "innocent-connection-closed", "C05/innocent-connection-closed", "the broker closed connection %d (client %d, id %q) although everything it sent was valid and it was not silent for its keep-alive (%d s): last bytes sent at %.3fs, closed at %.3fs; %d packets sent, %d received; other connection ends in this run: %s", c.Idx, c.Client, c.Up[0].P.ClientID, ka, float64(lastUp)/1e9, float64(bcVT)/1e9, len(c.Up), len(c.Down), r.otherEnds(c))
	}
}

func (r *run) otherEnds(me *Conn) string {
	var parts []string
	for _, c := range r.h.Conns {
		if c != me && c.ClientEnded && c.EndKind != "final" {
			parts = append(parts, fmt.Sprintf("conn %d %s@%d", c.Idx, c.EndKind, c.EndStamp))
		}
	}
	if len(parts) == 0 {
		return "none"
	}
	return strings.Join(parts, ", ")
}

// ---------------------------------------------------------------- C08 retained messages

// subReq is one answered SUBSCRIBE (or in-process Subscribe call) with the
// retained deliveries that belong to it.
type subReq struct {
	c        *Conn
	who      string
	lo, hi   int64 // window of the request: first byte .. SUBACK last byte (call .. return)
	filters  []string
	codes    []byte
	retained []*Delivery
}

func (r *run) checkRetained(m *Model) {
	h := m.H
	var reqs []*subReq
	delivOf := map[*WirePkt]*Delivery{}
	for _, d := range m.Deliv {
		if d.W != nil {
			delivOf[d.W] = d
		}
	}
	for _, c := range h.Conns {
		if !accepted(c) {
			continue
		}
		// A retained copy belongs to a SUBSCRIBE of this connection if it is
		// sent after the SUBSCRIBE arrived and before the broker answers the
		// request that follows it (the broker may send retained messages before
		// or after the SUBACK).
		type block struct {
			sr               *subReq
			open, ack, close int64
		}
		var blocks []*block
		var respStamps []int64
		for _, w := range c.Down {
			if isResp(w.P.Type) {
				respStamps = append(respStamps, w.Last)
			}
		}
		for _, rq := range m.Reqs[c] {
			if rq.W.P.Type != refmqtt.SUBSCRIBE || rq.Resp == nil || len(rq.Resp.P.QoSs) != len(rq.W.P.Filters) {
				continue
			}
			b := &block{open: rq.W.First, ack: rq.Resp.Last, close: inf}
			for _, st := range respStamps {
				if st > rq.Resp.Last {
					b.close = st
					break
				}
			}
			b.sr = &subReq{c: c, who: fmt.Sprintf("connection %d", c.Idx), lo: rq.W.First, hi: rq.Resp.Last, filters: rq.W.P.Filters, codes: rq.Resp.P.QoSs}
			blocks = append(blocks, b)
			reqs = append(reqs, b.sr)
		}
		for _, w := range c.Down {
			if w.P.Type != refmqtt.PUBLISH || !w.P.Retain {
				continue
			}
			d := delivOf[w]
			var cur *subReq
			// the SUBSCRIBE whose SUBACK was the last one before this copy and
			// whose successor has not been answered yet ...
			for _, b := range blocks {
				if b.ack <= w.First && w.Last <= b.close {
					cur = b.sr
				}
			}
			// ... or, for a broker that sends retained messages ahead of the
			// SUBACK, the SUBSCRIBE that has arrived but is not answered yet
			if cur == nil {
				for _, b := range blocks {
					if b.open < w.First && w.Last <= b.ack {
						cur = b.sr
						break
					}
				}
			}
			if cur == nil {
				r.cur = c
				r.viol("C08", "retain-flag-on-forward", "C08/retain-flag-outside-subscribe", "connection %d received PUBLISH %s with the retain flag set although no SUBSCRIBE of that connection was being served (messages forwarded to existing subscriptions must carry retain flag 0)", c.Idx, w.P)
				continue
			}
			if w.Last > cur.hi {
				// the value may be read from the store any time until it is sent
				cur.hi = w.Last
			}
			cur.retained = append(cur.retained, d)
		}
	}
	// in-process Subscribe calls
	for _, a := range h.API {
		if a.Op.K != "sub" || a.Err != "" {
			continue
		}
		q := a.Op.QoS
		if q > h.Script.Knobs.MaxQoS {
			q = h.Script.Knobs.MaxQoS
		}
		sr := &subReq{who: fmt.Sprintf("in-process subscriber %d", a.Op.CB), lo: a.Call, hi: a.Ret, filters: []string{a.Op.Filter}, codes: []byte{q}}
		for _, d := range m.Deliv {
			if d.C == nil && d.CB == a.Op.CB && d.Retain && d.Stamp > a.Call && d.Stamp < a.Ret {
				sr.retained = append(sr.retained, d)
			}
		}
		reqs = append(reqs, sr)
	}
	// retained publishes per topic
	byTopic := map[string][]*Pub{}
	for _, p := range m.Pubs {
		if p.Retain && !p.Never {
			byTopic[p.Topic] = append(byTopic[p.Topic], p)
		}
	}
	topicsSorted := make([]string, 0, len(byTopic))
	for t := range byTopic {
		topicsSorted = append(topicsSorted, t)
	}
	sort.Strings(topicsSorted)
	defer func() { r.cur = nil }()
	for _, sr := range reqs {
		r.cur = sr.c
		used := map[*Delivery]bool{}
		for _, t := range topicsSorted {
			var fq []byte // granted QoS of the request's filters matching t
			anyEmpty := false
			for _, ot := range topicsSorted {
				// a retained topic with an empty level aliases other topics in
				// the store (known defect of the topic tree)
				if hasEmptyLevel(ot) {
					anyEmpty = true
				}
			}
			for i, f := range sr.filters {
				if sr.codes[i] == 0x80 || !refmqtt.ValidFilter(f) {
					continue
				}
				if hasEmptyLevel(f) {
					anyEmpty = true
				}
				if refmqtt.Match(f, t) {
					fq = append(fq, sr.codes[i])
				}
			}
			tag := ""
			if anyEmpty {
				tag = "/empty-level"
			}
			// value set V
			pubs := byTopic[t]
			superseded := func(v *Pub) bool {
				for _, w := range pubs {
					if w != v && w.Certain && w.Hi < sr.lo && (v == nil || v.Hi < w.Lo) {
						return true
					}
				}
				return false
			}
			nonePossible := !superseded(nil)
			var vals []*Pub
			for _, v := range pubs {
				if v.Lo > sr.hi || superseded(v) {
					continue
				}
				if len(v.Payload) == 0 {
					nonePossible = true
					continue
				}
				vals = append(vals, v)

			}
			var copies []*Delivery
			for _, d := range sr.retained {
				if d != nil && d.Topic == t {
					copies = append(copies, d)
					used[d] = true
				}
			}
			if len(fq) == 0 {
				if len(copies) > 0 {
					r.viol("C08", "retained-matches-filter", "C08/retained-for-non-matching-filter"+tag, "%s subscribed %q and received the retained message of topic %q, which matches none of the filters", sr.who, sr.filters, t)
				}
				continue
			}
			for _, d := range copies {
				var src *Pub
				for _, v := range vals {
					if v.Key == d.Key {
						src = v
					}
				}
				if src == nil && d.Intact && strings.HasPrefix(sr.who, "in-process") {
					// in-process callbacks see the retain flag of live forwards
					// too: a retained-flag publish racing with the call is one
					live := false
					for _, p := range m.Pubs {
						if p.Key == d.Key && p.Retain && p.Lo <= sr.hi && sr.lo <= p.Hi {
							live = true
						}
					}
					if live {
						continue
					}
				}
				if src == nil {
					r.viol("C08", "retained-payload", "C08/wrong-retained-payload"+tag, "%s subscribed %q and received a retained message for %q (%d bytes, key %s, intact=%v) that is not a value the topic could hold at that time; possible values: %s, none possible: %v", sr.who, sr.filters, t, len(d.Payload), d.Key, d.Intact, pubKeys(vals), nonePossible)
					continue
				}
				okq := strings.HasPrefix(sr.who, "in-process") // (may be a live forward through another subscription)
				for _, g := range fq {
					if d.QoS == minq(src.QoS, g) {
						okq = true
					}
				}
				if !okq {
					r.viol("C08", "retained-qos", "C08/wrong-retained-qos"+tag, "%s received the retained message of %q (stored QoS %d) at QoS %d; granted QoS of the matching filters: %v", sr.who, t, src.QoS, d.QoS, fq)
				}
			}
			inprocOverlap := false
			if strings.HasPrefix(sr.who, "in-process") {
				// a live forward of a retained publish may land inside the call
				inprocOverlap = true
			}
			switch {
			case len(copies) > len(fq) && !inprocOverlap:
				r.viol("C08", "retained-count", "C08/too-many-retained"+tag, "%s subscribed %q and received %d retained messages for topic %q (%d matching filter(s))", sr.who, sr.filters, len(copies), t, len(fq))
			case len(vals) == 0 && len(copies) > 0:
				// covered by wrong-retained-payload
			case !nonePossible && len(vals) > 0 && (len(copies) < len(fq) || (len(copies) != len(fq) && !inprocOverlap)) && m.flushed(sr.c, sr.hi):
				r.viol("C08", "retained-delivered", "C08/retained-missing"+tag, "%s subscribed %q (return codes %v, window [%d,%d]) while topic %q certainly held a retained message (possible values %s) but received %d retained message(s) for it instead of %d", sr.who, sr.filters, sr.codes, sr.lo, sr.hi, t, pubKeys(vals), len(copies), len(fq))
			}
		}
		for _, d := range sr.retained {
			if d != nil && !used[d] {
				r.viol("C08", "retained-known-topic", "C08/retained-unknown-topic", "%s received a retained message on topic %q on which nothing was ever retained", sr.who, d.Topic)
			}
		}
	}
}

func pubKeys(ps []*Pub) string {
	var ks []string
	for _, p := range ps {
		ks = append(ks, fmt.Sprintf("%s(q%d,%dB,[%d,%d],certain=%v)", p.Key, p.QoS, len(p.Payload), p.Lo, p.Hi, p.Certain))
	}
	if len(ks) == 0 {
		return "none"
	}
	return strings.Join(ks, " ")
}

// ---------------------------------------------------------------- C02 receiver side of QoS 1/2 (broker role)

// checkReceiver judges hand-over counts and timing for application messages
// that are sent more than once (DUP repeats) or released explicitly: per key,
// every subscriber that certainly holds exactly one matching subscription over
// all the windows must receive one copy per accepted QoS 0/1 PUBLISH and one
// per released QoS 2 exchange, the latter not before its PUBREL.
func (r *run) checkReceiver(m *Model) {
	byKey := map[string][]*Pub{}
	var keys []string
	// a QoS 2 PUBLISH with the retain flag is handed on - to existing
	// subscriptions and, as a retained message, to later ones - at its PUBREL
	// and never before (how many copies, and which retained value a new
	// subscription gets, is C08's business)
	retLo := map[string]int64{}
	var retKeys []string
	for _, p := range m.Pubs {
		if p.Retain && !p.Will && p.QoS == 2 {
			lo, seen := retLo[p.Key]
			if !seen {
				retKeys = append(retKeys, p.Key)
				lo = -1
			}
			if !p.Never && (lo < 0 || p.Lo < lo) {
				lo = p.Lo
			}
			retLo[p.Key] = lo
		}
	}
	sort.Strings(retKeys)
	for _, key := range retKeys {
		lo := retLo[key]
		for _, d := range m.Deliv {
			if d.Key == key && (lo < 0 || d.Stamp < lo) {
				r.viol("C02", "not-before-pubrel", "C02/handed-on-before-release/retained", "%s received application message %s (retain flag %v) at stamp %d, but the QoS 2 PUBLISH with the retain flag that carried it had not been released by a PUBREL by then (earliest release at stamp %d, -1 = never)", subscriberName(d.C, d.CB), key, d.Retain, d.Stamp, lo)
				break
			}
		}
	}
	for _, p := range m.Pubs {
		if p.Retain && !p.Will {
			continue
		}
		if _, ok := byKey[p.Key]; !ok {
			keys = append(keys, p.Key)
		}
		byKey[p.Key] = append(byKey[p.Key], p)
	}
	sort.Strings(keys)
	grantsBy := map[subKey][]*Grant{}
	var subs []subKey
	for _, g := range m.Grants {
		k := subKey{g.C, g.CB}
		if _, ok := grantsBy[k]; !ok {
			subs = append(subs, k)
		}
		grantsBy[k] = append(grantsBy[k], g)
	}
	for _, key := range keys {
		pubs := byKey[key]
		topic := pubs[0].Topic
		for _, sk := range subs {
			// exactly one grant of this subscriber matches, and it certainly
			// covers every window
			var match []*Grant
			aliased := hasEmptyLevel(topic)
			for _, g := range grantsBy[sk] {
				if hasEmptyLevel(g.Filter) {
					aliased = true // (known defect: such filters match other topics too)
				}
				if refmqtt.ValidFilter(g.Filter) && refmqtt.Match(g.Filter, topic) {
					match = append(match, g)
				}
			}
			if len(match) != 1 || aliased {
				continue
			}
			g := match[0]
			r.cur = sk.c
			must, may := 0, 0
			covered := true
			var latest int64
			for _, p := range pubs {
				if p.Never {
					continue
				}
				may++
				if p.Certain {
					must++
				}
				if !(g.CLo <= p.Lo && p.Hi <= g.CHi) {
					covered = false
				}
				if p.Hi > latest {
					latest = p.Hi
				}
			}
			if !covered || !m.flushed(g.C, latest) {
				continue
			}
			var copies []*Delivery
			for _, d := range m.Deliv {
				if d.C == sk.c && d.CB == sk.cb && d.Key == key && !d.Retain {
					copies = append(copies, d)
				}
			}
			if pubs[0].Will && pubs[0].Retain {
				continue // (retained wills: live copies are judged, see C08 for the stored one)
			}
			who := subscriberName(sk.c, sk.cb)
			if pubs[0].Will {
				// several connections of one client may carry the same will
				// (byte-identical CONNECT): one copy per abnormal end
				if len(pubs) > 1 && (len(copies) > may || len(copies) < must) {
					r.viol("C09", "will-exactly-once-per-end", fmt.Sprintf("C09/will-count/got%d-want%d", len(copies), must)+r.oversizeTag(pubs[0]), "%s received %d copies of will %s (topic %q) but %d connection(s) carrying it ended without DISCONNECT (possible: %d): %s", who, len(copies), key, topic, must, may, fmtPubs(pubs))
				}
				continue
			}
			if len(copies) > may {
				r.viol("C02", "handed-on-once", "C02/handed-on-too-often"+qosTag(pubs), "%s received %d copies of application message %s (topic %q) but the sender's packets allow at most %d hand-overs: %s", who, len(copies), key, topic, may, fmtPubs(pubs))
			}
			if len(copies) < must {
				r.viol("C02", "handed-on-once", "C02/handed-on-too-rarely"+qosTag(pubs), "%s received %d copies of application message %s (topic %q) but %d hand-overs are due: %s", who, len(copies), key, topic, must, fmtPubs(pubs))
			}
			// no hand-over of a QoS 2 message before its PUBREL
			for _, d := range copies {
				ok := false
				for _, p := range pubs {
					if !p.Never && d.Stamp >= p.Lo {
						ok = true
					}
				}
				if !ok {
					r.viol("C02", "not-before-pubrel", "C02/handed-on-before-release", "%s received application message %s at stamp %d, before any PUBREL (or PUBLISH) that could release it: %s", who, key, d.Stamp, fmtPubs(pubs))
				}
			}
		}
	}
	// unreleased QoS 2 exchanges must not be handed on at all (also covered by
	// the routing oracle for keys sent once)
	for _, key := range keys {
		all := true
		for _, p := range byKey[key] {
			if !p.Never {
				all = false
			}
		}
		if !all {
			continue
		}
		for _, d := range m.Deliv {
			if d.Key == key && !d.Retain {
				r.viol("C02", "not-before-pubrel", "C02/handed-on-without-release", "%s received application message %s although its QoS 2 exchange was never released by a PUBREL", subscriberName(d.C, d.CB), key)
			}
		}
	}
}

func qosTag(pubs []*Pub) string {
	return fmt.Sprintf("/qos%d", pubs[0].QoS)
}

func fmtPubs(ps []*Pub) string {
	var parts []string
	for _, p := range ps {
		parts = append(parts, fmt.Sprintf("{q%d window[%s,%s] certain=%v unreleased=%v dup-repeats=%d}", p.QoS, st(p.Lo), st(p.Hi), p.Certain, p.Never, p.Repeats))
	}
	return strings.Join(parts, " ")
}

// ---------------------------------------------------------------- C10 sessions

// checkSessions compares the SessionPresent flag of every accepted CONNECT
// with a model of the session store: state is kept only by the end of a
// CleanSession=0 connection and erased by any CleanSession=1 connect.
func (r *run) checkSessions(m *Model) {
	h := m.H
	conns := append([]*Conn{}, h.Conns...)
	sort.SliceStable(conns, func(i, j int) bool { return conns[i].OpenStamp < conns[j].OpenStamp })
	kept := map[string]bool{}
	lastEnd := map[string]*Conn{}
	raced := m.racedIDs()
	for _, c := range conns {
		if len(c.Up) == 0 || c.Up[0].P.Type != refmqtt.CONNECT || len(c.Down) == 0 || c.Down[0].P.Type != refmqtt.CONNACK {
			continue
		}
		cp, ack := c.Up[0].P, c.Down[0].P
		if ack.Code != 0 || cp.ClientID == "" {
			continue
		}
		want := !cp.CleanSession && kept[cp.ClientID]
		if ack.SessionPresent != want {
			prev := "no earlier connection"
			racing := ""
			if p := lastEnd[cp.ClientID]; p != nil {
				prev = fmt.Sprintf("previous connection %d had CleanSession=%v and was ended by %s at stamp %d", p.Idx, p.Up[0].P.CleanSession, m.EndCause(p), p.EndStamp)
			}
			if raced[cp.ClientID] {
				racing = "/immediate-reconnect"
			}
			r.viol("C10", "session-present", fmt.Sprintf("C10/session-present/clean%v-want%v-got%v%s", cp.CleanSession, want, ack.SessionPresent, racing), "connection %d: CONNECT(id %q, CleanSession=%v) at stamp %d was answered with SessionPresent=%v, expected %v; %s", c.Idx, cp.ClientID, cp.CleanSession, c.Up[0].First, ack.SessionPresent, want, prev)
		}
		kept[cp.ClientID] = !cp.CleanSession
		lastEnd[cp.ClientID] = c
	}
}

// racedIDs returns the client identifiers that at some point reconnected
// while the broker could still be tearing their previous connection down (no
// quiescence point between the end of one connection and the CONNECT of the
// next).
func (m *Model) racedIDs() map[string]bool {
	out := map[string]bool{}
	conns := append([]*Conn{}, m.H.Conns...)
	sort.SliceStable(conns, func(i, j int) bool { return conns[i].OpenStamp < conns[j].OpenStamp })
	last := map[string]*Conn{}
	for _, c := range conns {
		if len(c.Up) == 0 || c.Up[0].P.Type != refmqtt.CONNECT {
			continue
		}
		id := c.Up[0].P.ClientID
		if p := last[id]; p != nil {
			end := p.EndStamp
			if bc, st, _ := brokerClosed(p); bc {
				end = st
			}
			quiet := false
			for _, q := range m.H.AllQ {
				if q > end && q < c.Up[0].First {
					quiet = true
				}
			}
			if !quiet {
				out[id] = true
			}
		}
		last[id] = c
	}
	return out
}

// ---------------------------------------------------------------- C11 nothing before a valid CONNECT

func validIDChars(id string) bool {
	for i := 0; i < len(id); i++ {
		c := id[i]
		if !(c >= '0' && c <= '9' || c >= 'a' && c <= 'z' || c >= 'A' && c <= 'Z') {
			return false
		}
	}
	return true
}

// expectConnect returns the set of acceptable outcomes for the first packet p
// of a connection (from the MQTT 3.1.1 text): CONNACK codes, and whether a
// plain close without CONNACK is acceptable too.
func (r *run) expectConnect(p *refmqtt.Packet) (codes map[byte]bool, plainClose bool, why string) {
	codes = map[byte]bool{}
	// protocol name / level
	switch {
	case p.ProtoName == "MQTT" && p.ProtoLevel == 4, p.ProtoName == "MQIsdp" && p.ProtoLevel == 3:
	case p.ProtoName == "MQTT" || p.ProtoName == "MQIsdp":
		codes[1] = true
		why += "unsupported protocol level; "
	default:
		codes[1] = true
		plainClose = true
		why += "wrong protocol name; "
	}
	id := p.ClientID
	switch {
	case id == "" && !p.CleanSession:
		codes[2] = true
		why += "empty identifier with CleanSession=0; "
	case id == "" || len(id) > 23 || !validIDChars(id):
		// the server may accept or refuse these
		codes[2] = true
		if len(codes) == 1 {
			codes[0] = true
		}
		why += "identifier the server may refuse; "
	}
	// credentials
	rejected := false
	switch r.sc.Knobs.Authenticator {
	case "mockFailure":
		rejected = true
	case "verifPass":
		rejected = !(p.HasPass && string(p.Pass) == "secret-"+p.User)
	}
	if rejected {
		codes[4] = true
		delete(codes, 0)
		why += "credentials rejected; "
	}
	if len(codes) == 0 {
		codes[0] = true
		why = "acceptable CONNECT"
	}
	return codes, plainClose, why
}

func (r *run) checkConnect(m *Model) {
	h := m.H
	for _, c := range h.Conns {
		if len(c.Up) == 0 && c.UpErr == nil && c.upS.Pending() == 0 {
			continue // nothing was sent
		}
		var first *refmqtt.Packet
		if len(c.Up) > 0 {
			first = c.Up[0].P
		}
		var ack *refmqtt.Packet
		nonAck := 0
		for i, w := range c.Down {
			if i == 0 && w.P.Type == refmqtt.CONNACK {
				ack = w.P
			} else {
				nonAck++
			}
		}
		closedByBroker, _, _ := brokerClosed(c)
		// strictly well-formed CONNECT first?
		wellFormed := false
		if first != nil && first.Type == refmqtt.CONNECT {
			if _, _, err := refmqtt.Parse(first.Raw); err == nil {
				wellFormed = true
			}
		}
		class := "not-connect"
		if first != nil && first.Type == refmqtt.CONNECT {
			class = "malformed-connect"
		}
		if !wellFormed {
			if d := connectDefect(c.FirstBytes); d != "not-connect" {
				class = "malformed-connect/" + d
			}
			// any other first packet or a malformed CONNECT: must be closed,
			// must not be accepted, must not get anything but an optional CONNACK
			if ack != nil && ack.Code == 0 {
				r.viol("C11", "first-packet", "C11/accepted/"+class, "connection %d sent %s as its first packet and was accepted with CONNACK code 0", c.Idx, describeFirst(c))
				if r.malformedAccepted == "" {
					r.malformedAccepted = strings.TrimPrefix(class, "malformed-connect")
					if r.malformedAccepted == "" {
						r.malformedAccepted = "/unclassified"
					}
				}
				continue // what follows on this connection is a consequence
			}
			if nonAck > 0 {
				r.viol("C11", "no-effect-before-connect", "C11/packets-sent-to-unaccepted/"+class, "connection %d was never accepted but the broker sent it %d packet(s) besides CONNACK, e.g. %s", c.Idx, nonAck, c.Down[len(c.Down)-1].P)
			}
			cto := int64(r.sc.Knobs.ConnectTimeout)
			if cto == 0 {
				cto = 2 // the library's default
			}
			// (the broker's clock for a connection starts when its accept loop
			// hands the connection over, which temporary accept errors delay)
			since := c.OpenVT
			if a := int64(c.nc.AcceptVT()); a > since {
				since = a
			}
			if !closedByBroker && c.ClientEnded && c.nc.AcceptVT() >= 0 && c.EndVT-since > (cto*1000+500)*1e6 {
				// the client gave up only well after the connect timeout: the
				// broker had all that time to close the connection and did not
				r.viol("C11", "closed", "C11/not-closed/"+class, "connection %d sent %s as its first packet and the broker had not closed it %.1f virtual seconds after accepting it, when the client gave up (connect timeout %d s)", c.Idx, describeFirst(c), float64(c.EndVT-since)/1e9, cto)
			}
			if !closedByBroker && !c.ClientEnded {
				r.viol("C11", "closed", "C11/not-closed/"+class, "connection %d sent %s as its first packet and was still open at the end", c.Idx, describeFirst(c))
			} else if !closedByBroker && c.EndKind == "final" {
				r.viol("C11", "closed", "C11/not-closed/"+class, "connection %d sent %s as its first packet and the broker never closed it (still open when the run ended, %.1f virtual seconds later)", c.Idx, describeFirst(c), float64(c.EndVT-c.OpenVT)/1e9)
			}
			continue
		}
		codes, plain, why := r.expectConnect(first)
		got := "none"
		if ack != nil {
			got = fmt.Sprint(ack.Code)
		}
		switch {
		case ack == nil:
			if c.ClientEnded && c.EndKind != "final" {
				continue // the client left before the answer
			}
			if !(plain && closedByBroker) {
				r.viol("C11", "connack-code", "C11/no-connack/"+codeSet(codes), "connection %d sent a well-formed CONNECT (%s: %s) and got no CONNACK (closed by broker: %v); acceptable codes %s", c.Idx, first, why, closedByBroker, codeSet(codes))
			}
		case !codes[ack.Code]:
			r.viol("C11", "connack-code", "C11/wrong-code/want"+codeSet(codes)+"-got"+got, "connection %d: CONNECT %s (%s) was answered with CONNACK code %d; acceptable: %s", c.Idx, first, why, ack.Code, codeSet(codes))
		}
		if ack != nil && ack.Code != 0 {
			if nonAck > 0 {
				r.viol("C11", "no-effect-before-connect", "C11/packets-sent-to-unaccepted/refused", "connection %d was refused with code %d but the broker sent it %d further packet(s)", c.Idx, ack.Code, nonAck)
			}
			if !closedByBroker && (!c.ClientEnded || c.EndKind == "final") {
				r.viol("C11", "closed", "C11/not-closed/refused", "connection %d was refused with CONNACK code %d but the broker did not close it", c.Idx, ack.Code)
			}
		}
	}
}

func codeSet(m map[byte]bool) string {
	var ks []int
	for k := range m {
		ks = append(ks, int(k))
	}
	sort.Ints(ks)
	return strings.ReplaceAll(strings.Trim(fmt.Sprint(ks), "[]"), " ", "or")
}

func describeFirst(c *Conn) string {
	if len(c.Up) > 0 {
		return c.Up[0].P.String()
	}
	if c.UpErr != nil {
		return "bytes that are no MQTT packet (" + errClass(c.UpErr) + ")"
	}
	return fmt.Sprintf("an incomplete packet (%d bytes)", c.upS.Pending())
}

// connectDefect names the first way in which raw (the first bytes of a
// connection, starting with a CONNECT fixed header) is not a well-formed
// CONNECT packet.
func connectDefect(raw []byte) string {
	if len(raw) < 2 || raw[0]>>4 != refmqtt.CONNECT {
		return "not-connect"
	}
	if raw[0]&15 != 0 {
		return "header-flags"
	}
	remlen, hl, err := refmqtt.HeaderLen(raw)
	if err != nil {
		return "remaining-length"
	}
	if hl == 0 || len(raw) < hl+remlen {
		return "incomplete"
	}
	b := raw[hl : hl+remlen]
	i := 0
	field := func(name string) (string, bool) {
		if len(b)-i < 2 {
			return "missing-" + name, false
		}
		n := int(b[i])<<8 | int(b[i+1])
		if len(b)-i-2 < n {
			return "truncated-" + name, false
		}
		i += 2 + n
		return "", true
	}
	if d, ok := field("protocol-name"); !ok {
		return d
	}
	if len(b)-i < 4 {
		return "truncated-variable-header"
	}
	cf := b[i+1]
	i += 4
	switch {
	case cf&1 != 0:
		return "reserved-flag"
	case cf&4 == 0 && cf&0x38 != 0:
		return "will-flags-without-will"
	case cf>>3&3 == 3:
		return "will-qos-3"
	case cf&0x40 != 0 && cf&0x80 == 0:
		return "password-without-user-name"
	}
	if d, ok := field("client-identifier"); !ok {
		return d
	}
	if cf&4 != 0 {
		if d, ok := field("will-topic"); !ok {
			return d
		}
		if d, ok := field("will-message"); !ok {
			return d
		}
	}
	if cf&0x80 != 0 {
		if d, ok := field("user-name"); !ok {
			return d
		}
	}
	if cf&0x40 != 0 {
		if d, ok := field("password"); !ok {
			return d
		}
	}
	if i != len(b) {
		return "trailing-bytes"
	}
	if _, _, err := refmqtt.Parse(raw); err != nil {
		switch {
		case strings.Contains(err.Error(), "UTF-8"):
			return "string-not-utf8"
		case strings.Contains(err.Error(), "U+0000"):
			return "string-with-nul"
		case strings.Contains(err.Error(), "will topic"):
			return "will-topic-not-a-topic-name"
		}
	}
	return "other"
}

// ---------------------------------------------------------------- C19 keep-alive

// checkKeepAlive: a client that negotiated K seconds and is silent for well
// over 1.5 x K must be dropped: by 2K + 1 s of silence the broker has closed
// the connection.  (That it is not dropped while active is the
// innocent-connection oracle; that the drop publishes the will is the will
// oracle; that PINGREQ is answered is the response oracle.)
func (r *run) checkKeepAlive(m *Model) {
	h := m.H
	for _, c := range h.Conns {
		if !accepted(c) || len(c.UpVT) == 0 || len(c.Up) == 0 || c.Up[0].P.Type != refmqtt.CONNECT {
			continue
		}
		k := int64(c.Up[0].P.KeepAlive)
		if k == 0 {
			continue
		}
		limit := (2*k + 1) * 1e9
		// when did the connection end, and who ended it
		end := int64(-1)
		if c.ClientEnded {
			end = c.EndVT
		}
		if bc, _, vt := brokerClosed(c); bc && (end < 0 || vt < end) {
			end = vt
		}
		if h.ServerCloseCall > 0 && c.nc.Closed() && end < 0 {
			continue
		}
		times := append([]int64{}, c.UpVT...)
		for i := range times {
			// the broker's keep-alive clock cannot start before its accept loop
			// has handed the connection over (temporary accept errors delay that)
			if a := int64(c.nc.AcceptVT()); times[i] < a {
				times[i] = a
			}
		}
		for i, t := range times {
			next := end
			if i+1 < len(times) {
				next = times[i+1]
			}
			if next < 0 {
				next = int64(r.s.Now())
			}
			if next-t > limit {
				// silent for more than 2K+1 s and the connection was still there
				if r.sc.Profile == "teardown" {
					// C16: keep-alive expiry is an end cause the broker must act
					// on even when the silent peer's own outgoing ring is full.
					// Judged only for connections that never published: a
					// publisher whose incoming ring is full behind a stalled
					// third party is legitimately not being read.
					pub := false
					for _, w := range c.Up {
						if w.P.Type == refmqtt.PUBLISH {
							pub = true
						}
					}
					if !pub {
						r.viol("C16", "keepalive-end-cause", "C16/keepalive-expiry-not-acted-on", "connection %d (keep-alive %d s, a pure subscriber) sent nothing from %.3fs to %.3fs and the broker had not closed it by then", c.Idx, k, float64(t)/1e9, float64(next)/1e9)
					}
					break
				}
				r.viol("C19", "silent-client-dropped", "C19/not-dropped", "connection %d (keep-alive %d s) sent nothing from %.3fs to %.3fs (%.1f s of silence) and the broker had not closed it by then", c.Idx, k, float64(t)/1e9, float64(next)/1e9, float64(next-t)/1e9)
				break
			}
		}
	}
}

// ---------------------------------------------------------------- C12 sender side (broker role): packet identifiers in flight

// checkSenderIDs: on every connection the PUBLISH packets the broker has sent
// and that are not yet acknowledged carry non-zero, pairwise distinct packet
// identifiers.  An identifier counts as released as soon as the subscriber's
// terminal acknowledgement (PUBACK, PUBCOMP) has its first byte on the wire --
// the earliest moment at which the broker could know.
func (r *run) checkSenderIDs(m *Model) {
	defer func() { r.cur = nil }()
	for _, c := range m.H.Conns {
		r.cur = c
		if !accepted(c) {
			continue
		}
		type ev struct {
			stamp int64
			down  bool
			w     *WirePkt
		}
		var evs []ev
		for _, w := range c.Down {
			// (identifiers handed out before the harness moved the connection's
			// counter next to the wrap-around are not compared with later ones:
			// the jump is not something the library did)
			if w.P.Type == refmqtt.PUBLISH && w.P.QoS > 0 && w.First > r.h.PIDSetStamp {
				evs = append(evs, ev{w.First, true, w})
			}
		}
		for _, w := range c.Up {
			if w.P.Type == refmqtt.PUBACK || w.P.Type == refmqtt.PUBCOMP {
				evs = append(evs, ev{w.First, false, w})
			}
		}
		sort.SliceStable(evs, func(i, j int) bool { return evs[i].stamp < evs[j].stamp })
		inflight := map[uint16]*WirePkt{}
		for _, e := range evs {
			p := e.w.P
			if !e.down {
				if old := inflight[p.ID]; old != nil {
					if (p.Type == refmqtt.PUBACK && old.P.QoS == 1) || (p.Type == refmqtt.PUBCOMP && old.P.QoS == 2) {
						delete(inflight, p.ID)
					}
				}
				continue
			}
			if p.Dup {
				continue // a retransmission legitimately repeats the identifier
			}
			if old := inflight[p.ID]; old != nil {
				r.viol("C12", "distinct-ids-in-flight", "C12/duplicate-id-in-flight", "connection %d: the broker sent %s (stamp %d) while its earlier %s (stamp %d) with the same packet identifier was still unacknowledged", c.Idx, p, e.w.First, old.P, old.First)
				break
			}
			inflight[p.ID] = e.w
		}
	}
}
