package broker

import (
	"fmt"
	"math"
	"sort"

	"verif/sim/refmqtt"
)

const inf = int64(math.MaxInt64)

// Req is a client request that needs a response, with the response found on
// the wire (nil if none).
type Req struct {
	C    *Conn
	W    *WirePkt
	Resp *WirePkt
	Want byte // expected response type
}

// Pub is one PUBLISH accepted (or possibly accepted) by the broker.
type Pub struct {
	Key      string
	Src, Seq int
	Topic    string
	QoS      byte
	Retain   bool
	Payload  []byte
	C        *Conn    // nil for in-process publishes
	W        *WirePkt // the PUBLISH packet (first of an exchange for QoS 2)
	Lo, Hi   int64    // window in which the broker accepted it
	Certain  bool     // there is proof that the broker accepted it
	Never    bool     // QoS 2 exchange that was never released
	Repeats  int      // DUP repeats inside the same QoS 2 exchange
	Will     bool
	behind   []*Pub // QoS 2 exchanges opened earlier on the connection and still open at this one's PUBREL
}

// Grant is one subscription as granted by the broker.
type Grant struct {
	C        *Conn // nil for in-process subscribers
	CB       int
	Filter   string
	QoS      byte
	PLo, CLo int64 // possibly held from / certainly held from
	CHi, PHi int64 // certainly held until / possibly held until
	Restored bool
}

// Delivery is one PUBLISH the broker sent to a subscriber.
type Delivery struct {
	C       *Conn
	CB      int
	W       *WirePkt
	Topic   string
	Payload []byte
	QoS     byte
	Retain  bool
	Stamp   int64
	Key     string
	Intact  bool
	Src     int
	Seq     int
	used    bool
}

// Model is everything derived from the recorded history.
type Model struct {
	H      *Hist
	Reqs   map[*Conn][]*Req
	Pubs   []*Pub
	Grants []*Grant
	Deliv  []*Delivery
	// RespMismatch records the first response-stream inconsistency per conn.
	RespMismatch map[*Conn]string
	// valid quiescence stamps (no stalled reader at that point)
	Q []int64
	// wills of connections ended by Server.Close (not judged)
	ExemptWills map[string]bool
}

func respType(p *refmqtt.Packet) byte {
	switch p.Type {
	case refmqtt.PUBLISH:
		if p.QoS == 1 {
			return refmqtt.PUBACK
		}
		if p.QoS == 2 {
			return refmqtt.PUBREC
		}
	case refmqtt.PUBREL:
		return refmqtt.PUBCOMP
	case refmqtt.PUBREC:
		return refmqtt.PUBREL // the subscriber acknowledged a QoS 2 delivery: the broker must release it
	case refmqtt.SUBSCRIBE:
		return refmqtt.SUBACK
	case refmqtt.UNSUBSCRIBE:
		return refmqtt.UNSUBACK
	case refmqtt.PINGREQ:
		return refmqtt.PINGRESP
	}
	return 0
}

func isResp(t byte) bool {
	switch t {
	case refmqtt.PUBACK, refmqtt.PUBREC, refmqtt.PUBCOMP, refmqtt.SUBACK, refmqtt.UNSUBACK, refmqtt.PINGRESP, refmqtt.PUBREL:
		return true
	}
	return false
}

func keyOf(src, seq int) string { return fmt.Sprintf("%d/%d", src, seq) }

// rawKey identifies a payload that does not carry the harness's attribution
// header (raw packets of attacker scripts) by its content.
func rawKey(p []byte) string {
	h := uint64(14695981039346656037)
	for _, b := range p {
		h = (h ^ uint64(b)) * 1099511628211
	}
	return fmt.Sprintf("raw:%d:%016x", len(p), h)
}

// brokerClosed reports whether the broker's endpoint of c was closed before
// the client ended the connection (the client need not have noticed: its
// reader may be stalled), with the stamp and virtual time of that close.
func brokerClosed(c *Conn) (bool, int64, int64) {
	p := c.nc.Peer()
	if !p.Closed() {
		return false, 0, 0
	}
	if c.ClientEnded && c.EndStamp < p.ClosedSeq {
		return false, 0, 0
	}
	return true, p.ClosedSeq, int64(p.ClosedVT)
}

// connEnd returns the stamp until which the connection certainly existed from
// the broker's point of view.
func connCertainEnd(c *Conn) int64 {
	if bc, _, _ := brokerClosed(c); bc {
		// ended by the broker: certainly alive when it sent its last packet
		if n := len(c.Down); n > 0 {
			return c.Down[n-1].Last
		}
		return 0
	}
	if c.ClientEnded {
		return c.EndStamp
	}
	return inf
}

// beforeHalfClose reports whether packet w was completely written before the
// client half-closed the connection (FIN, still reading) on a connection that
// carried no DISCONNECT and that the broker was not asked to close before;
// it returns the quiescence point by which the broker has dealt with it.
func (m *Model) beforeHalfClose(c *Conn, w *WirePkt) (int64, bool) {
	if c.HalfClosed == 0 || w.Last >= c.HalfClosed {
		return 0, false
	}
	if m.H.ServerCloseCall > 0 && m.H.ServerCloseCall < c.HalfClosed {
		return 0, false
	}
	for _, u := range c.Up {
		if u.P.Type == refmqtt.DISCONNECT {
			return 0, false
		}
	}
	q := m.nextQuiescence(c.HalfClosed)
	if q == inf {
		q = m.H.FinalStamp
	}
	return q, true
}

func analyze(h *Hist) *Model {
	m := &Model{H: h, Reqs: map[*Conn][]*Req{}, RespMismatch: map[*Conn]string{}, ExemptWills: map[string]bool{}}
	m.Q = append(m.Q, h.Quiesce...)
	// 1. request/response matching per connection
	for _, c := range h.Conns {
		var reqs []*Req
		for _, w := range c.Up {
			if rt := respType(w.P); rt != 0 {
				reqs = append(reqs, &Req{C: c, W: w, Want: rt})
			}
		}
		i := 0
		for _, w := range c.Down {
			if !isResp(w.P.Type) {
				continue
			}
			if i >= len(reqs) {
				m.RespMismatch[c] = fmt.Sprintf("broker sent %s although no request is outstanding", w.P)
				break
			}
			rq := reqs[i]
			if w.P.Type != rq.Want || (rq.Want != refmqtt.PINGRESP && w.P.ID != rq.W.P.ID) {
				m.RespMismatch[c] = fmt.Sprintf("request %s was answered by %s (expected %s with identifier %d)", rq.W.P, w.P, refmqtt.TypeName(rq.Want), rq.W.P.ID)
				break
			}
			if w.Last < rq.W.First {
				m.RespMismatch[c] = fmt.Sprintf("response %s was sent before its request %s", w.P, rq.W.P)
				break
			}
			rq.Resp = w
			i++
		}
		m.Reqs[c] = reqs
	}
	m.buildGrants()
	m.buildPubs()
	m.buildDeliveries()
	return m
}

// laterResponse returns the Last stamp of the earliest broker response to a
// request the client sent after wire packet w on the same connection.
func (m *Model) laterResponse(c *Conn, w *WirePkt) int64 {
	for _, rq := range m.Reqs[c] {
		if rq.W.Idx > w.Idx && rq.Resp != nil {
			return rq.Resp.Last
		}
	}
	return inf
}

// nextQuiescence returns the first quiescence stamp after st (the final one
// at the latest).
func (m *Model) nextQuiescence(st int64) int64 {
	for _, q := range m.Q {
		if q > st {
			return q
		}
	}
	return inf
}

func (m *Model) buildPubs() {
	h := m.H
	for _, c := range h.Conns {
		if !accepted(c) {
			continue
		}
		open2 := map[uint16]*Pub{} // QoS 2 exchanges waiting for PUBREL
		end := connCertainEnd(c)
		for _, w := range c.Up {
			p := w.P
			switch p.Type {
			case refmqtt.PUBLISH:
				src, seq, ok := identify(p.Payload)
				key := keyOf(src, seq)
				if len(p.Payload) == 0 {
					key = "empty:" + p.Topic
					src, seq = c.Client, -1
				} else if !ok {
					key = rawKey(p.Payload)
					src, seq = c.Client, -2
				}
				pub := &Pub{Key: key, Src: src, Seq: seq, Topic: p.Topic, QoS: p.QoS, Retain: p.Retain, Payload: p.Payload, C: c, W: w, Lo: w.First, Hi: inf}
				if p.QoS == 2 {
					if old, dup := open2[p.ID]; dup {
						old.Repeats++
						continue
					}
					open2[p.ID] = pub
					pub.Never = true
					m.Pubs = append(m.Pubs, pub)
					continue
				}
				// QoS 0/1: accepted somewhere between its first byte and the
				// response to a later request / the next quiescence
				hi := m.laterResponse(c, w)
				if q := m.nextQuiescence(w.Last); q < hi && q <= end {
					hi = q
				}
				if hi < inf {
					pub.Certain = true
					pub.Hi = hi
				} else if q, ok := m.beforeHalfClose(c, w); ok {
					// the client shut down its sending direction after this
					// packet and went on reading: the broker has received it and
					// processes what it has received
					pub.Certain = true
					pub.Hi = q
				} else if p.QoS == 1 {
					// a PUBACK proves acceptance even if the connection ended
					for _, rq := range m.Reqs[c] {
						if rq.W == w && rq.Resp != nil {
							pub.Certain = true
						}
					}
					pub.Hi = m.H.FinalStamp
				} else {
					pub.Hi = m.H.FinalStamp
				}
				m.Pubs = append(m.Pubs, pub)
			case refmqtt.PUBREL:
				pub := open2[p.ID]
				if pub == nil {
					continue
				}
				delete(open2, p.ID)
				pub.Never = false
				pub.Lo = w.First
				pub.Hi = m.H.FinalStamp
				// the in-flight queue releases in the order of the PUBLISHes: an
				// exchange released before an earlier one is handed on only
				// when that one is released too
				for _, o := range open2 {
					if o.W.Idx < pub.W.Idx {
						pub.behind = append(pub.behind, o)
					}
				}
				for _, rq := range m.Reqs[c] {
					if rq.W == w && rq.Resp != nil {
						pub.Certain = true
						pub.Hi = rq.Resp.Last
					}
				}
				if !pub.Certain {
					if hi := m.laterResponse(c, w); hi < inf {
						pub.Certain = true
						pub.Hi = hi
					} else if q := m.nextQuiescence(w.Last); q <= end {
						pub.Certain = true
						pub.Hi = q
					} else if q, ok := m.beforeHalfClose(c, w); ok {
						pub.Certain = true
						pub.Hi = q
					}
				}
			}
		}
	}
	m.buildWills()
	// A sender must release QoS 2 exchanges in the order of its PUBLISHes
	// (MQTT-4.6.0-3).  Where a script does not, nothing is demanded of the
	// QoS 2 exchanges of that connection (hand-overs stay permitted).
	unordered := map[*Conn]bool{}
	for _, p := range m.Pubs {
		if len(p.behind) > 0 {
			unordered[p.C] = true
		}
	}
	for _, p := range m.Pubs {
		if p.C != nil && unordered[p.C] && p.QoS == 2 {
			p.Certain = false
			p.Hi = m.H.FinalStamp
		}
	}
	for _, a := range h.API {
		if a.Op.K != "pub" {
			continue
		}
		key := keyOf(srcInproc, a.Op.Seq)
		if len(a.Payload) == 0 {
			key = "empty:" + a.Op.Topic
		}
		m.Pubs = append(m.Pubs, &Pub{Key: key, Src: srcInproc, Seq: a.Op.Seq, Topic: a.Op.Topic, QoS: a.Op.QoS, Retain: a.Op.Retain, Payload: a.Payload, Lo: a.Call, Hi: a.Ret, Certain: a.Err == "" && a.Ret > 0})
	}
}

// accepted reports whether the broker accepted the connection (CONNACK code 0
// on the wire).
func accepted(c *Conn) bool {
	return len(c.Down) > 0 && c.Down[0].P.Type == refmqtt.CONNACK && c.Down[0].P.Code == 0
}

func (m *Model) buildGrants() {
	h := m.H
	// session store model: client id -> filter -> qos, for persistent sessions
	type sess struct{ subs map[string]byte }
	store := map[string]*sess{}
	// connections in the order in which they were opened
	conns := append([]*Conn{}, h.Conns...)
	sort.SliceStable(conns, func(i, j int) bool { return conns[i].OpenStamp < conns[j].OpenStamp })
	for _, c := range conns {
		if !accepted(c) || len(c.Up) == 0 || c.Up[0].P.Type != refmqtt.CONNECT {
			continue
		}
		cp := c.Up[0].P
		end := connCertainEnd(c)
		cur := map[string]*Grant{}
		close := func(g *Grant, chi, phi int64) {
			if g.CHi > chi {
				g.CHi = chi
			}
			if g.PHi > phi {
				g.PHi = phi
			}
		}
		cid := cp.ClientID
		if !cp.CleanSession && cid != "" {
			if s, ok := store[cid]; ok {
				// restored: certainly active once the broker has answered the
				// first request on the new connection
				first := inf
				for _, rq := range m.Reqs[c] {
					if rq.Resp != nil {
						first = rq.Resp.Last
						break
					}
				}
				fs := make([]string, 0, len(s.subs))
				for f := range s.subs {
					fs = append(fs, f)
				}
				sort.Strings(fs)
				for _, f := range fs {
					g := &Grant{C: c, CB: -1, Filter: f, QoS: s.subs[f], PLo: c.Up[0].First, CLo: first, CHi: end, PHi: inf, Restored: true}
					cur[f] = g
					m.Grants = append(m.Grants, g)
				}
			}
		} else if cid != "" {
			delete(store, cid)
		}
		for _, rq := range m.Reqs[c] {
			p := rq.W.P
			switch p.Type {
			case refmqtt.SUBSCRIBE:
				for i, f := range p.Filters {
					clo, phiOld := inf, inf
					var code byte = 0xff
					if rq.Resp != nil {
						clo, phiOld = rq.Resp.Last, rq.Resp.Last
						if i < len(rq.Resp.P.QoSs) {
							code = rq.Resp.P.QoSs[i]
						}
					}
					if code == 0x80 {
						continue
					}
					if old := cur[f]; old != nil {
						close(old, rq.W.First, phiOld)
					}
					g := &Grant{C: c, CB: -1, Filter: f, QoS: code, PLo: rq.W.First, CLo: clo, CHi: end, PHi: inf}
					if code == 0xff {
						// unanswered: possibly held with any QoS up to the requested one
						g.QoS = 0xff
						g.CLo = inf
					}
					cur[f] = g
					m.Grants = append(m.Grants, g)
				}
			case refmqtt.UNSUBSCRIBE:
				for _, f := range p.Filters {
					if old := cur[f]; old != nil {
						phi := inf
						if rq.Resp != nil {
							phi = rq.Resp.Last
						}
						close(old, rq.W.First, phi)
						if rq.Resp != nil {
							delete(cur, f)
						}
					}
				}
			}
		}
		// what survives the connection
		if cid != "" {
			if cp.CleanSession {
				delete(store, cid)
			} else {
				s := &sess{subs: map[string]byte{}}
				for f, g := range cur {
					if g.QoS <= 2 {
						s.subs[f] = g.QoS
					}
				}
				store[cid] = s
			}
		}
	}
	// in-process subscribers
	cur := map[string]*Grant{}
	for _, a := range h.API {
		k := fmt.Sprintf("%d %s", a.Op.CB, a.Op.Filter)
		switch a.Op.K {
		case "sub":
			if a.Err != "" {
				continue
			}
			q := a.Op.QoS
			if q > h.Script.Knobs.MaxQoS {
				q = h.Script.Knobs.MaxQoS
			}
			if old := cur[k]; old != nil {
				old.CHi, old.PHi = a.Call, a.Ret
			}
			g := &Grant{CB: a.Op.CB, Filter: a.Op.Filter, QoS: q, PLo: a.Call, CLo: a.Ret, CHi: inf, PHi: inf}
			if h.ServerCloseCall > 0 {
				g.CHi = h.ServerCloseCall
			}
			cur[k] = g
			m.Grants = append(m.Grants, g)
		case "unsub":
			if old := cur[k]; old != nil {
				if old.CHi > a.Call {
					old.CHi = a.Call
				}
				if a.Err == "" {
					old.PHi = a.Ret
					delete(cur, k)
				}
			}
		}
	}
}

func (m *Model) buildDeliveries() {
	for _, c := range m.H.Conns {
		for _, w := range c.Down {
			if w.P.Type != refmqtt.PUBLISH {
				continue
			}
			d := &Delivery{C: c, CB: -1, W: w, Topic: w.P.Topic, Payload: w.P.Payload, QoS: w.P.QoS, Retain: w.P.Retain, Stamp: w.Last}
			d.Src, d.Seq, d.Intact = identify(w.P.Payload)
			d.Key = keyOf(d.Src, d.Seq)
			if len(w.P.Payload) == 0 {
				d.Key = "empty:" + w.P.Topic
				d.Intact = true
			} else if !d.Intact {
				d.Key = rawKey(w.P.Payload)
			}
			m.Deliv = append(m.Deliv, d)
		}
	}
	for i := range m.H.CB {
		ev := &m.H.CB[i]
		// In-process callbacks get the message object as published (a live
		// forward of a retained publish still carries the flag): a call is a
		// retained delivery only if it happens inside a Subscribe call of that
		// callback whose filter matches the topic.
		ret := false
		if ev.Retain {
			for _, a := range m.H.API {
				if a.Op.K == "sub" && a.Op.CB == ev.CB && ev.Stamp > a.Call && ev.Stamp < a.Ret && refmqtt.ValidFilter(a.Op.Filter) && refmqtt.Match(a.Op.Filter, ev.Topic) {
					ret = true
				}
			}
		}
		d := &Delivery{CB: ev.CB, Topic: ev.Topic, Payload: ev.Payload, QoS: ev.QoS, Retain: ret, Stamp: ev.Stamp}
		d.Src, d.Seq, d.Intact = identify(ev.Payload)
		d.Key = keyOf(d.Src, d.Seq)
		if len(ev.Payload) == 0 {
			d.Key = "empty:" + ev.Topic
			d.Intact = true
		} else if !d.Intact {
			d.Key = rawKey(ev.Payload)
		}
		m.Deliv = append(m.Deliv, d)
	}
}

// EndCause classifies how an accepted connection ended.
func (m *Model) EndCause(c *Conn) string {
	// a complete DISCONNECT packet on the wire is a normal end
	for _, w := range c.Up {
		if w.P.Type == refmqtt.DISCONNECT {
			return "disconnect"
		}
	}
	if bc, _, _ := brokerClosed(c); bc {
		return "broker-closed"
	}
	if c.ClientEnded {
		return c.EndKind // fin, rst, final
	}
	return "open"
}

// buildWills adds the will of every accepted connection that ended without a
// DISCONNECT packet as a publish the broker must make.
func (m *Model) buildWills() {
	h := m.H
	for _, c := range h.Conns {
		if !accepted(c) || len(c.Up) == 0 || c.Up[0].P.Type != refmqtt.CONNECT || !c.Up[0].P.WillFlag {
			continue
		}
		cp := c.Up[0].P
		cause := m.EndCause(c)
		if cause == "disconnect" && (h.ServerCloseCall > 0 && c.UnreadAtServerClose > 0 || c.LostAtReset > 0) {
			// the DISCONNECT was sent, but the broker had not read all of the
			// connection's bytes when it was told to shut down, or a reset
			// discarded them: it cannot know about the DISCONNECT, so its will
			// is not judged either way
			if src0, seq0, ok0 := identify(cp.WillMessage); ok0 {
				m.ExemptWills[keyOf(src0, seq0)] = true
			}
			continue
		}
		if cause == "disconnect" || cause == "open" {
			continue
		}
		bc, bcStamp, _ := brokerClosed(c)
		endAt := c.EndStamp
		if bc {
			endAt = bcStamp
		}
		src0, seq0, ok0 := identify(cp.WillMessage)
		if h.ServerCloseCall > 0 && (endAt == 0 || endAt > h.ServerCloseCall) {
			// ended by (or after) Server.Close: not judged here
			if ok0 {
				m.ExemptWills[keyOf(src0, seq0)] = true
			}
			continue
		}
		lo := c.EndStamp
		if bc {
			lo = c.OpenStamp
		}
		from := endAt
		hi := m.nextQuiescence(from)
		if hi == inf {
			hi = h.FinalStamp
		}
		src, seq, ok := identify(cp.WillMessage)
		key := keyOf(src, seq)
		if len(cp.WillMessage) == 0 {
			key = "empty:" + cp.WillTopic
			src, seq = srcWill+c.Client, c.Idx
		} else if !ok {
			key = rawKey(cp.WillMessage)
			src, seq = srcWill+c.Client, c.Idx
		}
		m.Pubs = append(m.Pubs, &Pub{Key: key, Src: src, Seq: seq, Topic: cp.WillTopic, QoS: cp.WillQoS, Retain: cp.WillRetain, Payload: cp.WillMessage, C: c, Lo: lo, Hi: hi, Certain: true, Will: true})
	}
}
