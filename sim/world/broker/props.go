package broker

import "verif/sim/world"

const ruleRouting = "script = 2-5 raw clients + 0-2 in-process subscribers doing connect / subscribe (1-3 filters over {a,b,empty,+,#} and a larger vocabulary) / unsubscribe / publish QoS 0-2 with full handshake (payload 8 B .. packet limit, each attributable to one publish) / disconnect, close, reset and reconnect / barriers; knobs: ring size, link capacity, read segmentation, packet-id counter start; a stalled reader in some runs. Oracle = reference matcher + must/may windows from wire stamps. Non-trivial = at least one delivery or more than one connection; distinct = distinct schedule hash."

func def(prop string, gen func(tier string, seed uint64, idx int) interface{}, rule, level string, quick, thorough int) *world.Def {
	return &world.Def{
		Prop: prop, World: "broker", Gen: gen, NewScript: func() interface{} { return &Script{} }, Run: Run, Shrink: shrinkScript,
		Rule: rule, Real: realBroker, Stub: stubBroker, Level: level, QuickRuns: quick, ThoroughRuns: thorough, Assumptions: assumeBroker,
	}
}

func init() {
	world.Register(def("C01", genRouting("C01"), ruleRouting, "exploration", 12000, 600000))
	world.Register(def("C07", genSuback("C07"), "script = 1-2 subscriber clients sending SUBSCRIBE/UNSUBSCRIBE with 1-12 filters (valid, invalid such as a/#/b or a+, repeated, overlapping, never subscribed), requested QoS 0-2 and out of range (3, 0x7f, 0x80, 0xff), server maximum QoS 0-2, and a publisher probing the filters before, between and after with barriers in between. Oracle: exactly one SUBACK/UNSUBACK per request in request order with one code per filter = min(requested, maximum) or 0x80 for an invalid filter (or the broker closes the connection); effect judged by the routing oracle with the certain window starting at the SUBACK and ending at the UNSUBSCRIBE. Non-trivial = at least one delivery or more than one connection.", "exploration", 12000, 600000))
	world.Register(def("C08", genRetained("C08"), "script = 1-2 publishers (and Server.Publish) sending retained / clearing (empty payload) / non-retained publishes at QoS 0-2 on up to 8 topics, in half of the runs with more than a ring size of unrelated traffic in between; 1-3 subscribers (and Server.Subscribe) issuing SUBSCRIBEs with literal and wildcard filters, repeated, before/after barriers or racing with the updates; server maximum QoS 0-2. Oracle: per SUBSCRIBE and topic, the set V of values that could be current in the request's window; exactly one retained copy per matching filter with payload in V, QoS min(stored, granted), when V holds only messages; none when nothing can be stored; retain flag 1 only right after a SUBACK. Non-trivial = at least one delivery or more than one connection.", "exploration", 12000, 600000))
	world.Register(def("C02", genReceiver("C02"), "script (broker role) = a scripted publisher interleaving over 1-4 packet identifiers: PUBLISH QoS 1 with DUP repeats, PUBLISH QoS 2, DUP repeats before the PUBREL, PUBREL, repeated PUBREL, PUBREL for identifiers not in flight, pipelined or waiting for each ack, and more than two ring sizes of unrelated QoS 0 traffic in half of the runs; a witness subscribed to # at QoS 0-2. Oracle: ack stream (one PUBACK/PUBREC per PUBLISH, one PUBCOMP per PUBREL, same identifier, in order), hand-over count per application message between the certain and the possible number, no hand-over before the releasing PUBREL, byte-identical payload. The client role of this property is checked in the client world. Non-trivial = at least one delivery.", "exploration", 12000, 600000))
	for _, p := range []string{"C17"} {
		world.Register(def(p, genRouting(p), "routing profile (provisional)", "exploration", 12000, 600000))
	}
}
