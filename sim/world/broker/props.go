package broker

import "verif/sim/world"

const ruleRouting = "script = 2-5 raw clients + 0-2 in-process subscribers doing connect / subscribe (1-3 filters over {a,b,empty,+,#} and a larger vocabulary) / unsubscribe / publish QoS 0-2 with full handshake (payload 8 B .. packet limit, each attributable to one publish) / disconnect, close, reset and reconnect / barriers; knobs: ring size, link capacity, read segmentation, packet-id counter start; a stalled reader in some runs. Oracle = reference matcher + must/may windows from wire stamps. Non-trivial = at least one delivery or more than one connection; distinct = distinct schedule hash."

func def(prop string, gen func(tier string, seed uint64, idx int) interface{}, rule, level string, quick, thorough int) *world.Def {
	return &world.Def{
		Prop: prop, World: "broker", Gen: gen, NewScript: func() interface{} { return &Script{} }, Run: Run, Shrink: shrinkScript,
		Rule: rule, Real: realBroker, Stub: stubBroker, Level: level, QuickRuns: quick, ThoroughRuns: thorough, Assumptions: assumeBroker,
	}
}

func init() {
	world.Register(def("C01", genRouting("C01"), ruleRouting, "exploration", 12000, 600000))
	for _, p := range []string{"C02", "C07", "C17"} {
		world.Register(def(p, genRouting(p), "routing profile (provisional)", "exploration", 12000, 600000))
	}
}
