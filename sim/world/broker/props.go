package broker

import "verif/sim/world"

const ruleRouting = "script = 2-5 raw clients + 0-2 in-process subscribers doing connect / subscribe (1-3 filters over {a,b,empty,+,#} and a larger vocabulary) / unsubscribe / publish QoS 0-2 with full handshake (payload 8 B .. packet limit, each attributable to one publish) / disconnect, close, reset and reconnect / barriers; knobs: ring size, link capacity, read segmentation, packet-id counter start; a stalled reader in some runs. Oracle = reference matcher + must/may windows from wire stamps. Non-trivial = at least one delivery or more than one connection; distinct = distinct schedule hash."

func def(prop string, gen func(tier string, seed uint64, idx int) interface{}, rule, level string, quick, thorough int) *world.Def {
	return &world.Def{
		Prop: prop, World: "broker", Gen: gen, NewScript: func() interface{} { return &Script{} }, Run: Run, Shrink: shrinkScript,
		Rule: rule, Real: realBroker, Stub: stubBroker, Level: level, QuickRuns: quick, ThoroughRuns: thorough, Assumptions: assumeBroker,
	}
}

func init() {
	world.Register(def("C01", genRouting("C01"), ruleRouting, "exploration", 12000, 600000))
	world.Register(def("C07", genSuback("C07"), "script = 1-2 subscriber clients sending SUBSCRIBE/UNSUBSCRIBE with 1-12 filters (valid, invalid such as a/#/b or a+, repeated, overlapping, never subscribed), requested QoS 0-2 and out of range (3, 0x7f, 0x80, 0xff), server maximum QoS 0-2, and a publisher probing the filters before, between and after with barriers in between. Oracle: exactly one SUBACK/UNSUBACK per request in request order with one code per filter = min(requested, maximum) or 0x80 for an invalid filter (or the broker closes the connection); effect judged by the routing oracle with the certain window starting at the SUBACK and ending at the UNSUBSCRIBE. Non-trivial = at least one delivery or more than one connection.", "exploration", 12000, 600000))
	for _, p := range []string{"C02", "C17"} {
		world.Register(def(p, genRouting(p), "routing profile (provisional)", "exploration", 12000, 600000))
	}
}
