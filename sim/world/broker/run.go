package broker

import (
	"fmt"
	"io"
	"sort"
	"strings"
	"sync/atomic"
	"syscall"
	"time"

	"github.com/mdzio/go-mqtt/auth"
	"github.com/mdzio/go-mqtt/message"
	"github.com/mdzio/go-mqtt/service"
	"github.com/mdzio/go-mqtt/sessions"
	"github.com/mdzio/go-mqtt/topics"

	"verif/sim/refmqtt"
	"verif/sim/simnet"
	"verif/sim/simrt"
	"verif/sim/world"
)

const brokerAddr = "broker:1883"

// WirePkt is a packet seen by a wire tap with the stamps of its first and
// last byte entering the link.
type WirePkt struct {
	P           *refmqtt.Packet
	First, Last int64
	VT          int64 // virtual time (ns) of the last byte
	Idx         int   // position in the direction's packet list
}

// Recv is a packet parsed by a client's reader task.
type Recv struct {
	P     *refmqtt.Packet
	Stamp int64
}

// Conn is one connection instance of a scripted client.
type Conn struct {
	Idx    int
	Client int
	nc     *simnet.Conn
	Op     *Op // the connect op

	Up, Down            []*WirePkt // client->broker, broker->client (wire taps)
	upS, downS          refmqtt.Stream
	upF, downF          int64
	UpErr               error // strict parse error on bytes the client sent (attackers)
	DownErr             error // strict parse error on bytes the broker sent
	DownErrAt           int64
	Recvd               []*Recv
	FirstBytes          []byte  // the first bytes the client sent (up to 512)
	UpVT                []int64 // virtual time of every chunk the client put on the wire
	rdS                 refmqtt.Stream
	Dead                bool   // reader observed the end of the connection
	DeadKind            string // eof, reset, error
	DeadStamp           int64
	DeadVT              int64
	ClientEnded         bool   // the client ended it (DISCONNECT, FIN, RST, cut)
	EndKind             string // disconnect, fin, rst
	EndStamp            int64  // stamp at which the client started ending it
	HalfClosed          int64  // stamp of the client's half-close (FIN sent, still reading); 0 = none
	UnreadAtServerClose int    // bytes sent by the client that the broker had not read when Server.Close was called
	LostAtReset         int    // bytes sent by the client that the broker had not read when the connection was reset (discarded)
	EndVT               int64
	OpenStamp           int64
	OpenVT              int64
	LastUpVT            int64 // virtual time of the last byte the client wrote

	changed  simrt.Pulse
	stalled  bool
	resume   simrt.Pulse
	sending  bool
	sendWait []*simrt.Task
	readerT  *simrt.Task
}

// QSnap is what was alive at a valid quiescence point.
type QSnap struct {
	Stamp int64
	VT    int64
	Tasks []simrt.TaskInfo
	Held  []string
}

// CBEvent is an invocation of an in-process subscriber callback.
type CBEvent struct {
	CB      int
	Topic   string
	Payload []byte
	QoS     byte
	Retain  bool
	Stamp   int64
}

// APICall is a call of the in-process Server API.
type APICall struct {
	Op        InprocOp
	Call, Ret int64
	Err       string
	Payload   []byte
}

// Hist is everything recorded during a run.
type Hist struct {
	Script   *Script
	Conns    []*Conn
	CB       []CBEvent
	API      []*APICall
	Quiesce  []int64 // stamps of director quiescence points at which no reader was stalled and no byte was unread
	QuiesceV []int64
	AllQ     []int64 // every quiescence point
	QTasks   []QSnap // library tasks alive at each valid quiescence point
	// Final phase markers
	FinalStamp       int64 // stamp after every client connection was closed and quiescence reached
	ServerCloseCall  int64
	PIDSetStamp      int64 // when the harness set the per-connection packet-id counters (0 = never)
	ServerCloseRet   int64
	ServerClosed     bool // Server.Close returned
	CloseStuck       string
	ServerClosedAtQ  bool // ... by the first quiescence point after the call (before any stalled reader was resumed)
	LeftAfterClients []simrt.TaskInfo
	LeftSubs         []LeftSub // subscriptions the topic tree still holds after every connection has ended
	SessionsLeft     int       // sessions in the store after every connection has ended (-1: not probed)
	LeftAtEnd        []simrt.TaskInfo
	HeldAtEnd        []string
	ServeErr         string
	ServeReturned    bool
	ServeRetStamp    int64 // when ListenAndServe returned
	DialRefused      int   // connections a client could not open because the listener was gone
}

type clientState int

const (
	csRunning clientState = iota
	csBarrier
	csSleeping
	csFinished
)

type cstate struct {
	idx     int
	cl      *Client
	st      clientState
	conn    *Conn
	barrier simrt.Pulse
}

type run struct {
	s        *simrt.Sim
	sc       *Script
	h        *Hist
	out      *world.Outcome
	srv      *service.Server
	cs       []*cstate
	inprocSt clientState
	inprocB  simrt.Pulse
	finish   bool
	cbs      []service.OnPublishFunc
	provName string
	m        *Model
	cur      *Conn // connection the oracle is currently judging

	pidSet            bool
	malformedAccepted string // defect class of the first malformed CONNECT that was accepted
}

var provCounter uint64

// payload builds the attributable payload of an application message.
func payload(src, seq, size int) []byte {
	if size <= 0 {
		return nil
	}
	if size < 8 {
		size = 8
	}
	p := make([]byte, size)
	p[0] = 0xA5
	p[1] = byte(src)
	p[2] = byte(seq >> 8)
	p[3] = byte(seq)
	p[4] = byte(size >> 24)
	p[5] = byte(size >> 16)
	p[6] = byte(size >> 8)
	p[7] = byte(size)
	x := uint32(src)*2654435761 + uint32(seq)*40503 + 12345
	for i := 8; i < size; i++ {
		x = x*1664525 + 1013904223
		p[i] = byte(x >> 24)
	}
	return p
}

// identify parses an attributable payload: source, sequence, and whether the
// content is intact.
func identify(p []byte) (src, seq int, ok bool) {
	if len(p) < 8 || p[0] != 0xA5 {
		return 0, 0, false
	}
	src = int(p[1])
	seq = int(p[2])<<8 | int(p[3])
	size := int(p[4])<<24 | int(p[5])<<16 | int(p[6])<<8 | int(p[7])
	if size != len(p) {
		return src, seq, false
	}
	want := payload(src, seq, size)
	for i := range p {
		if p[i] != want[i] {
			return src, seq, false
		}
	}
	return src, seq, true
}

const (
	srcInproc = 200
	srcWill   = 100
)

func (r *run) tap(c *Conn, up bool) func(b []byte) {
	return func(b []byte) {
		s := r.s
		st := s.Stamp()
		stream, first, list := &c.downS, &c.downF, &c.Down
		if up {
			stream, first, list = &c.upS, &c.upF, &c.Up
			c.LastUpVT = int64(s.Now())
			c.UpVT = append(c.UpVT, c.LastUpVT)
			if len(c.FirstBytes) < 512 {
				c.FirstBytes = append(c.FirstBytes, b...)
			}
		}
		if stream.Pending() == 0 {
			*first = st
		}
		dead := stream.Err != nil
		pkts := stream.Feed(b)
		for _, p := range pkts {
			w := &WirePkt{P: p, First: *first, Last: s.Stamp(), VT: int64(s.Now()), Idx: len(*list)}
			*list = append(*list, w)
			*first = w.Last
			if s.Verbose() {
				dir := "<-"
				if up {
					dir = "->"
				}
				s.Logf("wire c%d %s %s [%d,%d]", c.Idx, dir, p, w.First, w.Last)
			}
			s.Event("wire", int64(c.Idx)*2+b2i(up), int64(p.Type)<<16|int64(p.ID))
		}
		if stream.Err != nil && !dead {
			if up {
				c.UpErr = stream.Err
			} else {
				c.DownErr = stream.Err
				c.DownErrAt = st
			}
		}
	}
}

func b2i(b bool) int64 {
	if b {
		return 1
	}
	return 0
}

// send writes raw bytes on the connection under the per-connection send lock
// (writer and reader task both send).
func (r *run) send(c *Conn, b []byte) error {
	s := r.s
	if c.HalfClosed > 0 {
		return io.EOF // the client has shut down its sending direction
	}
	for c.sending {
		c.sendWait = append(c.sendWait, s.Current())
		s.Block(simrt.WHarness, c, "sendlock")
	}
	c.sending = true
	_, err := c.nc.Write(b)
	c.sending = false
	for _, t := range c.sendWait {
		s.Wake(t)
	}
	c.sendWait = nil
	return err
}

func (r *run) sendPkt(c *Conn, p *refmqtt.Packet) error { return r.send(c, refmqtt.Encode(p)) }

// reader is the per-connection reader task.
func (r *run) reader(c *Conn, cl *Client) {
	s := r.s
	buf := make([]byte, 4096)
	for {
		for c.stalled && !r.finish {
			c.resume.Wait(s)
		}
		n, err := c.nc.Read(buf)
		if n > 0 {
			for _, p := range c.rdS.Feed(buf[:n]) {
				c.Recvd = append(c.Recvd, &Recv{P: p, Stamp: s.Stamp()})
				r.autoRespond(c, cl, p)
			}
			c.changed.Signal(s)
		}
		if c.rdS.Err != nil && err == nil {
			// the broker sent something unparsable (reported by the framing
			// oracle): keep draining so that the broker is not held up
			continue
		}
		if err != nil {
			c.Dead = true
			c.DeadStamp = s.Stamp()
			c.DeadVT = int64(s.Now())
			switch {
			case err == io.EOF:
				c.DeadKind = "eof"
			case err != nil && c.nc.Closed():
				c.DeadKind = "closed-by-client"
			case err != nil:
				c.DeadKind = "error: " + err.Error()
			default:
				c.DeadKind = "garbage from broker"
			}
			s.Event("dead", int64(c.Idx), 0)
			s.Logf("conn %d dead: %s (client ended: %v)", c.Idx, c.DeadKind, c.ClientEnded)
			c.changed.Signal(s)
			return
		}
	}
}

func (r *run) autoRespond(c *Conn, cl *Client, p *refmqtt.Packet) {
	switch p.Type {
	case refmqtt.PUBLISH:
		if cl.AckMode == "none" {
			return
		}
		if p.QoS == 1 {
			r.sendPkt(c, &refmqtt.Packet{Type: refmqtt.PUBACK, ID: p.ID})
		} else if p.QoS == 2 {
			r.sendPkt(c, &refmqtt.Packet{Type: refmqtt.PUBREC, ID: p.ID})
		}
	case refmqtt.PUBREL:
		if cl.AckMode == "none" {
			return
		}
		r.sendPkt(c, &refmqtt.Packet{Type: refmqtt.PUBCOMP, ID: p.ID})
	}
}

// await blocks the writer until cond holds, the connection is dead, or the
// run is finishing.
func (r *run) await(c *Conn, cond func() bool) bool {
	s := r.s
	for !cond() {
		if c.Dead || r.finish {
			return false
		}
		c.changed.Wait(s)
	}
	return true
}

func (c *Conn) got(typ byte, id uint16, from int) bool {
	for _, rc := range c.Recvd[from:] {
		if rc.P.Type == typ && (id == 0 || rc.P.ID == id) {
			return true
		}
	}
	return false
}

func (r *run) endConn(c *Conn, kind string) {
	if c == nil || c.ClientEnded || c.nc.Closed() || c.Dead {
		// (a connection the broker already ended is not "ended by the client")
		return
	}
	c.ClientEnded = true
	c.EndKind = kind
	c.EndStamp = r.s.Stamp()
	c.EndVT = int64(r.s.Now())
}

// client is the writer task of one scripted client.
func (r *run) client(st *cstate) {
	s := r.s
	cl := st.cl
	defer func() { st.st = csFinished }()
	for i := range cl.Ops {
		op := &cl.Ops[i]
		if r.finish {
			return
		}
		s.Yield(simrt.YHarness)
		c := st.conn
		alive := c != nil && !c.Dead && !c.nc.Closed()
		switch op.K {
		case "connect", "open":
			if alive {
				r.endConn(c, "fin")
				c.nc.Close()
			}
			nc, err := simnet.Dial(s, "tcp", brokerAddr)
			if err != nil {
				if r.h.ServeReturned && r.h.ServerCloseCall == 0 {
					// the library gave up listening although nobody closed the
					// server: judged by the oracle, not an aborted run
					r.h.DialRefused++
					return
				}
				r.out.Aborted = "dial: " + err.Error()
				return
			}
			c = &Conn{Idx: len(r.h.Conns), Client: st.idx, nc: nc, Op: op}
			c.upS.Lenient = true
			nc.SetCaps(r.sc.Knobs.LinkCap, r.sc.Knobs.LinkCap)
			nc.TapOut(r.tap(c, true))
			nc.TapIn(r.tap(c, false))
			c.OpenStamp = s.Stamp()
			c.OpenVT = int64(s.Now())
			c.LastUpVT = c.OpenVT
			r.h.Conns = append(r.h.Conns, c)
			st.conn = c
			cc := c
			c.readerT = s.Go(fmt.Sprintf("reader%d", c.Idx), false, func() { r.reader(cc, cl) })
			if op.K == "open" {
				continue
			}
			p := &refmqtt.Packet{Type: refmqtt.CONNECT, ClientID: op.CID, CleanSession: op.Clean, KeepAlive: uint16(op.KA), ProtoName: op.Proto, ProtoLevel: op.Level, ConnFlags: op.CFlags}
			if op.Will != nil {
				p.WillFlag = true
				p.WillTopic = op.Will.Topic
				p.WillQoS = op.Will.QoS
				p.WillRetain = op.Will.Retain
				p.WillMessage = payload(srcWill+st.idx, c.Idx, op.Will.Size)
				if op.Will.Ver > 0 {
					p.WillMessage = payload(srcWill+st.idx, 1000+op.Will.Ver, op.Will.Size)
				}
			}
			if op.Auth {
				p.HasUser, p.HasPass = true, true
				p.User, p.Pass = op.User, []byte(op.Pass)
			}
			if r.sendPkt(c, p) != nil {
				continue
			}
			if !op.NoWait {
				r.await(c, func() bool { return c.got(refmqtt.CONNACK, 0, 0) })
			}
		case "sub":
			if !alive {
				continue
			}
			from := len(c.Recvd)
			if r.sendPkt(c, &refmqtt.Packet{Type: refmqtt.SUBSCRIBE, ID: op.PID, Filters: op.Filters, QoSs: op.QoSs}) != nil {
				continue
			}
			if !op.NoWait {
				r.await(c, func() bool { return c.got(refmqtt.SUBACK, op.PID, from) })
			}
		case "unsub":
			if !alive {
				continue
			}
			from := len(c.Recvd)
			if r.sendPkt(c, &refmqtt.Packet{Type: refmqtt.UNSUBSCRIBE, ID: op.PID, Filters: op.Filters}) != nil {
				continue
			}
			if !op.NoWait {
				r.await(c, func() bool { return c.got(refmqtt.UNSUBACK, op.PID, from) })
			}
		case "pub":
			if !alive {
				continue
			}
			from := len(c.Recvd)
			p := &refmqtt.Packet{Type: refmqtt.PUBLISH, Topic: op.Topic, QoS: op.QoS, Retain: op.Retain, Dup: op.Dup, ID: op.PID, Payload: payload(st.idx, op.Seq, op.Size)}
			if r.sendPkt(c, p) != nil {
				continue
			}
			switch {
			case op.QoS == 1 && !op.NoWait:
				r.await(c, func() bool { return c.got(refmqtt.PUBACK, op.PID, from) })
			case op.QoS == 2 && !op.NoWait:
				if !r.await(c, func() bool { return c.got(refmqtt.PUBREC, op.PID, from) }) {
					continue
				}
				if op.NoRel {
					continue
				}
				from = len(c.Recvd)
				if r.sendPkt(c, &refmqtt.Packet{Type: refmqtt.PUBREL, ID: op.PID}) != nil {
					continue
				}
				r.await(c, func() bool { return c.got(refmqtt.PUBCOMP, op.PID, from) })
			}
		case "pubrel":
			if !alive {
				continue
			}
			from := len(c.Recvd)
			if r.sendPkt(c, &refmqtt.Packet{Type: refmqtt.PUBREL, ID: op.PID}) != nil {
				continue
			}
			if !op.NoWait {
				r.await(c, func() bool { return c.got(refmqtt.PUBCOMP, op.PID, from) })
			}
		case "ping":
			if !alive {
				continue
			}
			from := len(c.Recvd)
			if r.sendPkt(c, &refmqtt.Packet{Type: refmqtt.PINGREQ}) != nil {
				continue
			}
			if !op.NoWait {
				r.await(c, func() bool { return c.got(refmqtt.PINGRESP, 0, from) })
			}
		case "disc":
			if !alive {
				continue
			}
			r.endConn(c, "disconnect")
			r.sendPkt(c, &refmqtt.Packet{Type: refmqtt.DISCONNECT})
			if !op.NoWait {
				c.nc.Close()
			}
		case "close":
			if c == nil || c.nc.Closed() {
				continue
			}
			r.endConn(c, "fin")
			c.nc.Close()
		case "ioerr":
			// the broker's next read on this connection fails with EIO although
			// the peer is alive: for the broker the connection is broken
			if c == nil || c.nc.Closed() || c.Dead {
				continue
			}
			r.endConn(c, "ioerr")
			c.nc.Peer().InjectReadErr(syscall.EIO)
		case "shutwr":
			// half-close: FIN after everything written so far, keep reading
			if c == nil || c.nc.Closed() || c.HalfClosed > 0 {
				continue
			}
			for c.sending {
				c.sendWait = append(c.sendWait, s.Current())
				s.Block(simrt.WHarness, c, "sendlock")
			}
			r.endConn(c, "fin")
			c.HalfClosed = s.Stamp()
			c.nc.CloseWrite()
		case "rst":
			if c == nil || c.nc.Closed() {
				continue
			}
			r.endConn(c, "rst")
			c.LostAtReset = c.nc.Unread()
			c.nc.Reset()
		case "raw":
			if !alive {
				continue
			}
			b := op.Raw
			if op.Cut > 0 && op.Cut < len(b) {
				b = b[:op.Cut]
			}
			r.send(c, b)
			if op.Cut > 0 {
				s.Fault("cut_inside_packet")
				r.endConn(c, "fin")
				c.nc.Close()
			}
		case "kill":
			// end another client's connection from outside (its own writer
			// may be blocked)
			if op.Target >= 0 && op.Target < len(r.cs) {
				if tc := r.cs[op.Target].conn; tc != nil && !tc.nc.Closed() {
					if op.How == "rst" {
						r.endConn(tc, "rst")
						// a reset discards what the broker has not read yet
						tc.LostAtReset = tc.nc.Unread()
						tc.nc.Reset()
					} else {
						r.endConn(tc, "fin")
						tc.nc.Close()
					}
				}
			}
		case "resumeother":
			if op.Target >= 0 && op.Target < len(r.cs) {
				if tc := r.cs[op.Target].conn; tc != nil {
					tc.stalled = false
					tc.resume.Signal(s)
				}
			}
		case "stall":
			if c != nil {
				c.stalled = true
				s.Fault("stalled_reader")
			}
		case "resume":
			if c != nil {
				c.stalled = false
				c.resume.Signal(s)
			}
		case "sleep":
			st.st = csSleeping
			s.Sleep(msDur(op.D))
			st.st = csRunning
		case "waitdead":
			if c != nil {
				r.await(c, func() bool { return false })
			}
		case "barrier":
			st.st = csBarrier
			st.barrier.Wait(s)
			st.st = csRunning
		}
	}
}

func (r *run) inproc() {
	s := r.s
	defer func() { r.inprocSt = csFinished }()
	for _, op := range r.sc.Inproc {
		if r.finish {
			return
		}
		s.Yield(simrt.YHarness)
		call := &APICall{Op: op}
		switch op.K {
		case "barrier":
			r.inprocSt = csBarrier
			r.inprocB.Wait(s)
			r.inprocSt = csRunning
			continue
		case "sub":
			call.Call = s.Stamp()
			err := r.srv.Subscribe(op.Filter, op.QoS, &r.cbs[op.CB])
			call.Ret = s.Stamp()
			if err != nil {
				call.Err = err.Error()
			}
		case "unsub":
			call.Call = s.Stamp()
			err := r.srv.Unsubscribe(op.Filter, &r.cbs[op.CB])
			call.Ret = s.Stamp()
			if err != nil {
				call.Err = err.Error()
			}
		case "pub":
			m := message.NewPublishMessage()
			m.SetTopic([]byte(op.Topic))
			call.Payload = payload(srcInproc, op.Seq, op.Size)
			m.SetPayload(append([]byte{}, call.Payload...))
			m.SetQoS(op.QoS)
			m.SetRetain(op.Retain)
			call.Call = s.Stamp()
			err := r.srv.Publish(m)
			call.Ret = s.Stamp()
			if err != nil {
				call.Err = err.Error()
			}
		}
		r.h.API = append(r.h.API, call)
		s.Event("api", call.Call, call.Ret)
	}
}

type passAuth struct{}

func (passAuth) Authenticate(id string, cred interface{}) error {
	if s, ok := cred.(string); ok && s == "secret-"+id {
		return nil
	}
	return auth.ErrAuthFailure
}

var passAuthRegistered bool

// Run executes a broker script.
func Run(script interface{}, cfg simrt.Config) *world.Outcome {
	sc := script.(*Script)
	out := &world.Outcome{Summary: map[string]interface{}{}}
	h := &Hist{Script: sc}
	if cfg.MaxSteps == 0 {
		cfg.MaxSteps = 1500000
	}
	// process-wide state: fresh providers per run, counters reset
	service.VerifResetCounters()
	message.VerifSetPacketIDCounter(sc.Knobs.PIDStart)
	id := atomic.AddUint64(&provCounter, 1)
	prov := fmt.Sprintf("verif-%d", id)
	topics.Register(prov, topics.NewMemProvider())
	sessions.Register(prov, sessions.NewMemProvider())
	if !passAuthRegistered {
		auth.Register("verifPass", passAuth{})
		passAuthRegistered = true
	}
	oldMax := topics.MaxQosAllowed
	topics.MaxQosAllowed = sc.Knobs.MaxQoS
	defer func() {
		topics.MaxQosAllowed = oldMax
		topics.Unregister(prov)
		sessions.Unregister(prov)
	}()
	r := &run{sc: sc, h: h, out: out, provName: prov}
	res := simrt.Run(cfg, nil, func(s *simrt.Sim) {
		r.s = s
		r.director()
	})
	out.Res = res
	switch res.Status {
	case simrt.StatusBudget:
		out.Aborted = "step budget"
		if res.LibOnlyTail > cfg.MaxSteps/4 {
			// For the last quarter of the budget (hundreds of thousands of
			// scheduling steps) only library goroutines took steps: every
			// client, the in-process callers and the director (waiting for
			// quiescence) were parked, so no input and no time can arrive any
			// more - a goroutine of the library is busy without end.
			out.Aborted = ""
			prop := map[string]string{"will": "C09", "keepalive": "C19"}[sc.Profile]
			if prop == "" {
				prop = "C16"
			}
			what := map[string]string{"C09": "the end of the connection it belongs to is never dealt with (no will, no teardown)", "C19": "the silent connection it belongs to is never dropped and dealt with", "C16": "its connection is never torn down and the goroutine never exits"}[prop]
			out.Add(prop, "no-livelock", prop+"/livelock/"+siteOf(res.LastTask), fmt.Sprintf("for the last %d scheduling steps of the run only library goroutines ran while every peer and the harness were parked waiting for the broker to become idle; goroutine %q is busy without end: %s. Tasks: %s", res.LibOnlyTail, res.LastTask, what, simrt.FormatTasks(res.Left)))
			return out
		}
	case simrt.StatusHang:
		out.Aborted = "director hang: " + simrt.FormatTasks(res.Left)
		// Nothing is runnable and no timer is pending.  A library goroutine
		// that is parked on a lock at this point stays there for ever: locks
		// are released by tasks only, and every task is parked (the harness
		// holds library locks only inside API calls, which are parked on the
		// same locks).  That is a deadlock inside the library, not trouble of
		// the harness.
		for _, t := range res.Left {
			if t.Lib && (t.Wait == "mutex" || t.Wait == "rlock" || t.Wait == "wlock") {
				out.Aborted = ""
				prop := map[string]string{"will": "C09", "keepalive": "C19", "witness": "C05"}[sc.Profile]
				if prop == "" {
					prop = "C16"
				}
				out.Add(prop, "no-deadlock", prop+"/deadlock/"+siteOf(t.Name)+"/"+t.Wait, fmt.Sprintf("every goroutine is parked and no timer is pending, and library goroutine %q is parked on a lock (%s): it will never proceed - the broker is deadlocked (connections are no longer served or torn down). Tasks: %s; held locks: %v", t.Name, t.Wait, simrt.FormatTasks(res.Left), res.HeldLocks))
				return out
			}
		}
	}
	judge(r, res)
	return out
}

func msDur(ms int) time.Duration { return time.Duration(ms) * time.Millisecond }

// LeftSub is a subscription found in the topic tree after all connections ended.
type LeftSub struct {
	Filter, Topic string
	N             int
}

// concreteTopic turns a filter into a topic name it matches ("" if none).
func concreteTopic(f string) string {
	if f == "" {
		return ""
	}
	parts := strings.Split(f, "/")
	for i, p := range parts {
		switch p {
		case "+":
			parts[i] = "zz"
		case "#":
			parts[i] = "zz"
		}
	}
	t := strings.Join(parts, "/")
	if strings.HasPrefix(t, "$") || !refmqtt.Match(f, t) {
		return ""
	}
	return t
}

func bufCfg(sc *Script) int {
	if sc.Knobs.BufCfg != 0 {
		return sc.Knobs.BufCfg
	}
	return sc.Knobs.BufSize
}

func (r *run) director() {
	s := r.s
	sc := r.sc
	h := r.h
	net := simnet.Get(s)
	net.DefaultCap = sc.Knobs.LinkCap
	net.SegmentNum, net.SegmentDen = sc.Knobs.SegNum, sc.Knobs.SegDen
	if net.SegmentDen == 0 {
		net.SegmentNum, net.SegmentDen = 1, 4
	}
	s.StateSig = func() uint64 {
		// abstract state: which kinds of library goroutine are parked on what
		var h uint64 = 1469598103934665603
		counts := map[string]int{}
		for _, t := range s.Tasks() {
			if t.Lib {
				st := t.Wait
				if t.Runnable {
					st = "run"
				}
				counts[siteOf(t.Name)+"/"+st]++
			}
		}
		keys := make([]string, 0, len(counts))
		for k := range counts {
			keys = append(keys, k)
		}
		sort.Strings(keys)
		for _, k := range keys {
			for i := 0; i < len(k); i++ {
				h = (h ^ uint64(k[i])) * 1099511628211
			}
			h = (h ^ uint64(counts[k])) * 1099511628211
		}
		return h
	}
	r.srv = &service.Server{
		BufferSize:       int64(bufCfg(sc)),
		ConnectTimeout:   sc.Knobs.ConnectTimeout,
		SessionsProvider: r.provName,
		TopicsProvider:   r.provName,
		Authenticator:    sc.Knobs.Authenticator,
	}
	s.Go("server", false, func() {
		err := r.srv.ListenAndServe("tcp://" + brokerAddr)
		h.ServeReturned = true
		h.ServeRetStamp = s.Stamp()
		if err != nil {
			h.ServeErr = err.Error()
		}
	})
	s.Quiesce()
	if h.ServeReturned {
		r.out.Aborted = "ListenAndServe returned at once: " + h.ServeErr
		return
	}
	if sc.Knobs.AcceptErrs > 0 {
		// temporary accept errors for the first connections
		net.InjectAcceptErrs(brokerAddr, sc.Knobs.AcceptErrs)
	}
	if sc.Knobs.AcceptErrNum > 0 {
		// ... and for any later one, decided by the fault stream
		net.InjectAcceptErrRate(brokerAddr, sc.Knobs.AcceptErrNum, 16)
	}
	// in-process callbacks
	ncb := 0
	for _, op := range sc.Inproc {
		if op.CB+1 > ncb {
			ncb = op.CB + 1
		}
	}
	r.cbs = make([]service.OnPublishFunc, ncb)
	for i := range r.cbs {
		i := i
		r.cbs[i] = func(m *message.PublishMessage) error {
			ev := CBEvent{CB: i, Topic: string(m.Topic()), Payload: append([]byte{}, m.Payload()...), QoS: m.QoS(), Retain: m.Retain(), Stamp: s.Stamp()}
			h.CB = append(h.CB, ev)
			s.Event("cb", int64(i), int64(len(ev.Payload)))
			s.Yield(simrt.YHarness)
			return nil
		}
	}
	for i := range sc.Clients {
		st := &cstate{idx: i, cl: &sc.Clients[i]}
		r.cs = append(r.cs, st)
		s.Go(fmt.Sprintf("client%d", i), false, func() { r.client(st) })
	}
	r.inprocSt = csFinished
	if len(sc.Inproc) > 0 {
		r.inprocSt = csRunning
		s.Go("inproc", false, r.inproc)
	}
	// phase loop
	for round := 0; ; round++ {
		s.Quiesce()
		r.markQ()
		sleeping, atBarrier := 0, 0
		for _, st := range r.cs {
			switch st.st {
			case csSleeping:
				sleeping++
			case csBarrier:
				atBarrier++
			}
		}
		if r.inprocSt == csBarrier {
			atBarrier++
		}
		if r.serverBackoff() {
			// the accept loop sleeps after a temporary error while a
			// connection is waiting: let virtual time pass
			if s.SleepToNextTimer() {
				continue
			}
		}
		if sleeping > 0 {
			// let virtual time pass up to the next timer
			if !s.SleepToNextTimer() {
				break
			}
			continue
		}
		if atBarrier > 0 {
			if sc.Knobs.SvcPIDStart != 0 && !r.pidSet {
				// bring every connection's own packet-id counter close to the wrap
				r.pidSet = true
				r.srv.VerifSetPacketIDCounters(sc.Knobs.SvcPIDStart)
				h.PIDSetStamp = s.Stamp()
			}
			for _, st := range r.cs {
				if st.st == csBarrier {
					st.barrier.Signal(s)
				}
			}
			if r.inprocSt == csBarrier {
				r.inprocB.Signal(s)
			}
			continue
		}
		break
	}
	if sc.Knobs.CloseServer {
		r.closeServer()
	}
	// final phase: stop scripts, resume stalled readers, drain
	r.finish = true
	for _, c := range h.Conns {
		c.stalled = false
		c.resume.Signal(s)
		c.changed.Signal(s)
	}
	for _, st := range r.cs {
		st.barrier.Signal(s)
	}
	r.inprocB.Signal(s)
	s.Quiesce()
	r.markQ()
	// close what is still open
	for _, c := range h.Conns {
		if !c.nc.Closed() {
			r.endConn(c, "final")
			c.nc.Close()
		}
	}
	s.Quiesce()
	h.FinalStamp = s.Stamp()
	h.Quiesce = append(h.Quiesce, h.FinalStamp)
	h.QuiesceV = append(h.QuiesceV, int64(s.Now()))
	h.LeftAfterClients = s.LibTasksAlive()
	if !sc.Knobs.CloseServer {
		// every connection has ended: what does the topic tree still hold for
		// a topic matching each filter the script subscribed to?
		if n, err := r.srv.VerifSessions(); err == nil {
			h.SessionsLeft = n
		} else {
			h.SessionsLeft = -1
		}
		seen := map[string]bool{}
		for _, cl := range sc.Clients {
			for _, op := range cl.Ops {
				if op.K != "sub" {
					continue
				}
				for _, f := range op.Filters {
					t := concreteTopic(f)
					if t == "" || seen[t] || !refmqtt.ValidFilter(f) {
						continue
					}
					seen[t] = true
					if n, err := r.srv.VerifSubscribers(t); err == nil && n > 0 {
						h.LeftSubs = append(h.LeftSubs, LeftSub{Filter: f, Topic: t, N: n})
					}
				}
			}
		}
		r.closeServer()
	}
	h.LeftAtEnd = s.LibTasksAlive()
	h.HeldAtEnd = s.HeldLocks()
}

// serverBackoff reports whether the task that runs ListenAndServe is parked in
// the back-off sleep of its accept loop.
func (r *run) serverBackoff() bool {
	for _, t := range r.s.Tasks() {
		if t.Name == "server" && !t.Runnable && t.Wait == "sleep" {
			return true
		}
	}
	return false
}

// markQ records a quiescence point; it bounds acceptance windows only if no
// reader is stalled and the broker has read everything that was sent.
func (r *run) markQ() {
	s := r.s
	st := s.Stamp()
	r.h.AllQ = append(r.h.AllQ, st)
	for _, c := range r.h.Conns {
		if c.nc.Closed() {
			continue
		}
		if c.stalled || c.nc.Unread() > 0 || c.nc.Readable() > 0 {
			return
		}
	}
	r.h.Quiesce = append(r.h.Quiesce, st)
	r.h.QuiesceV = append(r.h.QuiesceV, int64(s.Now()))
	r.h.QTasks = append(r.h.QTasks, QSnap{Stamp: st, VT: int64(s.Now()), Tasks: s.LibTasksAlive(), Held: s.HeldLocks()})
}

func (r *run) closeServer() {
	s := r.s
	h := r.h
	for _, c := range h.Conns {
		// what the broker has not read yet when it is asked to shut down
		c.UnreadAtServerClose = c.nc.Unread()
	}
	h.ServerCloseCall = s.Stamp()
	s.Go("server-close", false, func() {
		// A program that closes a server it started in another goroutine has
		// synchronised with its start-up somehow; going through an API call
		// that passes the server's configuration Once gives the closing
		// goroutine that happens-before edge for the configuration fields.
		var none service.OnPublishFunc
		r.srv.Unsubscribe("verif/none", &none)
		r.srv.Close()
		h.ServerClosed = true
		h.ServerCloseRet = s.Stamp()
	})
	s.Quiesce()
	h.ServerClosedAtQ = h.ServerClosed
	if !h.ServerClosed {
		h.CloseStuck = simrt.FormatTasks(s.Tasks()) + fmt.Sprintf(" held locks: %v", s.HeldLocks())
	}
	// an accept loop that is sleeping off a temporary error notices the
	// shutdown when its back-off (at most 1 s) is over
	for i := 0; i < 64 && r.serverBackoff() && s.SleepToNextTimer(); i++ {
		s.Quiesce()
	}
}
