// Package broker simulates a real service.Server on the simulated transport
// with scripted raw clients (speaking through the independent reference
// codec), in-process subscribers/publishers and a director that inserts
// quiescence barriers, moves virtual time and tears everything down.
package broker

// Will of a CONNECT.
type Will struct {
	Topic  string `json:"topic"`
	QoS    byte   `json:"qos"`
	Retain bool   `json:"retain,omitempty"`
	Size   int    `json:"size"` // payload size (0 = empty)
	// Ver, if non-zero, makes the will payload a function of (client, Ver)
	// instead of the connection, so that two connections of a client can send
	// byte-identical CONNECT packets.
	Ver int `json:"ver,omitempty"`
}

// Op is one scripted client operation.
type Op struct {
	K string `json:"k"`
	// connect
	CID    string `json:"cid,omitempty"`
	Clean  bool   `json:"clean,omitempty"`
	KA     int    `json:"ka,omitempty"`
	Will   *Will  `json:"will,omitempty"`
	User   string `json:"user,omitempty"`
	Pass   string `json:"pass,omitempty"`
	Auth   bool   `json:"auth,omitempty"` // send user name and password
	Proto  string `json:"proto,omitempty"`
	Level  byte   `json:"level,omitempty"`
	CFlags byte   `json:"cflags,omitempty"` // raw connect flags override (0 = derive)
	// subscribe / unsubscribe
	PID     uint16   `json:"pid,omitempty"`
	Filters []string `json:"filters,omitempty"`
	QoSs    []byte   `json:"qoss,omitempty"`
	// publish
	Topic  string `json:"topic,omitempty"`
	QoS    byte   `json:"qos,omitempty"`
	Retain bool   `json:"retain,omitempty"`
	Size   int    `json:"size,omitempty"`
	Dup    bool   `json:"dup,omitempty"`
	Seq    int    `json:"seq,omitempty"`   // identity of the application message (same Seq = DUP repeat)
	NoRel  bool   `json:"norel,omitempty"` // QoS 2: do not send PUBREL automatically
	// generic
	NoWait bool   `json:"nowait,omitempty"` // do not wait for the response
	D      int    `json:"d,omitempty"`      // sleep: milliseconds of virtual time
	Raw    []byte `json:"raw,omitempty"`    // raw bytes
	Cut    int    `json:"cut,omitempty"`    // raw: close after this many bytes (0 = all)
	Target int    `json:"target,omitempty"` // kill / resumeother: client index
	How    string `json:"how,omitempty"`    // kill: fin or rst
}

// Client is a scripted raw client (possibly several connections in sequence).
type Client struct {
	Ops []Op `json:"ops"`
	// AckMode: "" auto-acknowledge deliveries, "none" never acknowledge.
	AckMode string `json:"ack,omitempty"`
	Role    string `json:"role,omitempty"` // free text: witness, attacker, ...
}

// InprocOp is an operation of the in-process task (Server API).
type InprocOp struct {
	K      string `json:"k"` // sub unsub pub barrier
	CB     int    `json:"cb,omitempty"`
	Filter string `json:"filter,omitempty"`
	Topic  string `json:"topic,omitempty"`
	QoS    byte   `json:"qos,omitempty"`
	Retain bool   `json:"retain,omitempty"`
	Size   int    `json:"size,omitempty"`
	Seq    int    `json:"seq,omitempty"`
}

// Knobs are per-run configuration choices ("buggify").
type Knobs struct {
	BufSize        int    `json:"buf"`              // ring size of every connection
	BufCfg         int    `json:"bufcfg,omitempty"` // if non-zero: the configured Server.BufferSize (below the minimum, rounded up by the library to BufSize)
	SvcPIDStart    uint32 `json:"svcpid,omitempty"` // if non-zero: at the first barrier every connection's own packet-id counter is set to this value
	LinkCap        int    `json:"linkcap"`          // capacity of every link direction
	MaxQoS         byte   `json:"maxqos"`           // topics.MaxQosAllowed
	PIDStart       uint64 `json:"pidstart"`         // start value of the process-wide packet-id counter
	ConnectTimeout int    `json:"cto,omitempty"`
	Authenticator  string `json:"authn,omitempty"` // "", mockFailure, verifPass
	SegNum         int    `json:"segnum"`          // read segmentation probability SegNum/SegDen
	SegDen         int    `json:"segden"`
	AcceptErrs     int    `json:"accepterrs,omitempty"`   // temporary errors of the first Accept calls that have a connection waiting
	AcceptErrNum   int    `json:"accepterrnum,omitempty"` // later Accept calls fail with probability AcceptErrNum/16 (fault stream)
	CloseServer    bool   `json:"closeserver,omitempty"` // director calls Server.Close while clients are still connected
}

// Script of a broker-world run.
type Script struct {
	Knobs   Knobs      `json:"knobs"`
	Clients []Client   `json:"clients"`
	Inproc  []InprocOp `json:"inproc,omitempty"`
	// Profile names the generator profile (selects which oracles are strict).
	Profile string `json:"profile"`
}
