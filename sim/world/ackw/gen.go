package ackw

import (
	"fmt"
	"verif/sim/refmqtt"
	"verif/sim/simrt"
	"verif/sim/world"
)

func gen(tier string, seed uint64, idx int) interface{} {
	r := simrt.NewRand(world.RunSeed(seed, "C13/script", idx))
	kinds := []string{"pub1", "pub2in", "pub2out", "sub", "unsub", "ping"}
	sc := &Script{Kind: kinds[r.Intn(len(kinds))]}
	reqType := map[string]byte{"pub1": refmqtt.PUBLISH, "pub2in": refmqtt.PUBLISH, "pub2out": refmqtt.PUBLISH, "sub": refmqtt.SUBSCRIBE, "unsub": refmqtt.UNSUBSCRIBE, "ping": refmqtt.PINGREQ}[sc.Kind]
	reqQoS := map[string]byte{"pub1": 1, "pub2in": 2, "pub2out": 2}[sc.Kind]
	acks := map[string][]byte{"pub1": {refmqtt.PUBACK}, "pub2in": {refmqtt.PUBREL}, "pub2out": {refmqtt.PUBREC, refmqtt.PUBCOMP}, "sub": {refmqtt.SUBACK}, "unsub": {refmqtt.UNSUBACK}, "ping": {refmqtt.PINGRESP}}[sc.Kind]
	concurrent := r.Bool(1, 2)
	nreg := 1
	n := 30 + r.Intn(300)
	if concurrent {
		nreg = 1 + r.Intn(3)
		n = 6 + r.Intn(30)
	} else if r.Bool(1, 4) {
		n = 1000 + r.Intn(4000)
	}
	ntasks := 1
	if concurrent {
		ntasks = 1 + nreg
	}
	sc.Tasks = make([][]Op, ntasks)
	// identifier pool: small for collisions and reuse, or large for growth
	pool := 4 + r.Intn(8)
	deep := !concurrent && r.Bool(1, 2) // let hundreds pile up
	if deep {
		pool = 700
	}
	var inflight []uint16
	stage := map[uint16]int{}
	tok := 0
	// half of the concurrent scripts start on a ring that is wrapped (head not
	// at slot 0) and full or nearly full, so that a registration of the
	// concurrent phase makes it grow while acknowledgements are being recorded
	shaped := concurrent && reqType != refmqtt.PINGREQ && r.Bool(1, 2)
	if shaped {
		reg := func(id uint16) {
			tok++
			op := Op{K: "wait", Type: reqType, ID: id, QoS: reqQoS, Size: 1 + r.Intn(12), Tok: tok}
			if reqType == refmqtt.SUBSCRIBE {
				op.QoS = byte(r.Intn(3))
			}
			sc.Prefix = append(sc.Prefix, op)
			inflight = append(inflight, id)
			stage[id] = 0
		}
		next := uint16(1)
		for i := 0; i < 16; i++ {
			reg(next)
			next++
		}
		k := 1 + r.Intn(12)
		for i := 0; i < k; i++ {
			id := inflight[0]
			for _, t := range acks {
				sc.Prefix = append(sc.Prefix, Op{K: "ack", Type: t, ID: id})
			}
			inflight = inflight[1:]
			delete(stage, id)
		}
		sc.Prefix = append(sc.Prefix, Op{K: "acked"})
		for i := k - r.Intn(3); i > 0; i-- {
			reg(next)
			next++
		}
		// some of the waiting requests are half way (QoS 2 out)
		if len(acks) > 1 {
			for _, id := range inflight {
				if r.Bool(1, 4) {
					sc.Prefix = append(sc.Prefix, Op{K: "ack", Type: acks[0], ID: id})
					stage[id] = 1
				}
			}
		}
	}
	for i := 0; i < n; i++ {
		var op Op
		task := 0
		k := r.Intn(10)
		if deep && len(inflight) < 600 && r.Bool(2, 3) {
			k = 0
		}
		switch {
		case k < 4: // register
			tok++
			id := uint16(1 + r.Intn(pool))
			if shaped && r.Bool(3, 4) {
				id = uint16(100 + r.Intn(pool)) // new identifiers: the ring has to grow
			}
			if r.Bool(1, 50) {
				id = uint16(1 + r.Intn(65535))
			}
			op = Op{K: "wait", Type: reqType, ID: id, QoS: reqQoS, Size: 1 + r.Intn(40), Tok: tok}
			op.Built = reqType == refmqtt.PUBLISH && r.Bool(1, 3)
			if reqType == refmqtt.PUBLISH && r.Bool(1, 10) {
				// remaining length exactly on / next to the one-byte limit of its
				// encoding (2 + topic + 2 + payload = 126..129)
				op.Size = 126 + r.Intn(4) - 4 - len(fmt.Sprintf("t/%d", tok))
			}
			if reqType == refmqtt.SUBSCRIBE {
				op.QoS = byte(r.Intn(3))
			}
			switch r.Intn(40) {
			case 0:
				op.Type, op.QoS = refmqtt.PUBLISH, 0 // refused
			case 1:
				op.Type = refmqtt.PUBACK // not a request
			}
			if concurrent {
				task = 1 + r.Intn(nreg)
			}
			known := false
			for _, x := range inflight {
				if x == op.ID {
					known = true
				}
			}
			if op.Type == refmqtt.PUBLISH && op.QoS > 0 {
				// retransmissions: half of the registrations under an identifier
				// that is in flight, and a tenth of the others, carry DUP (the
				// queue keeps the request it registered first)
				op.Dup = (known && r.Bool(1, 2)) || r.Bool(1, 10)
			}
			if !known && op.Type == reqType && !(op.Type == refmqtt.PUBLISH && op.QoS == 0) && reqType != refmqtt.PINGREQ {
				inflight = append(inflight, op.ID)
				stage[op.ID] = 0
			}
		case k < 8: // acknowledge
			var id uint16
			if len(inflight) > 0 && r.Bool(9, 10) {
				j := r.Intn(len(inflight))
				if r.Bool(1, 2) {
					j = 0 // oldest first is the common case
				}
				id = inflight[j]
			} else {
				id = uint16(1 + r.Intn(65535)) // unknown identifier
			}
			t := acks[stage[id]%len(acks)]
			if r.Bool(1, 40) {
				t = refmqtt.CONNACK // not an acknowledgement
			}
			op = Op{K: "ack", Type: t, ID: id, QoS: byte(r.Intn(3))}
			if t == acks[len(acks)-1] {
				for j, x := range inflight {
					if x == id {
						inflight = append(inflight[:j], inflight[j+1:]...)
						break
					}
				}
				delete(stage, id)
			} else if _, ok := stage[id]; ok {
				stage[id]++
			}
		default:
			op = Op{K: "acked"}
		}
		sc.Tasks[task] = append(sc.Tasks[task], op)
	}
	sc.Tasks[0] = append(sc.Tasks[0], Op{K: "acked"})
	return sc
}

func shrink(script interface{}) []interface{} {
	sc := script.(*Script)
	var out []interface{}
	cp := func() *Script {
		n := *sc
		n.Tasks = make([][]Op, len(sc.Tasks))
		for i := range sc.Tasks {
			n.Tasks[i] = append([]Op{}, sc.Tasks[i]...)
		}
		return &n
	}
	for i := len(sc.Prefix) - 1; i >= 0 && len(out) < 60; i-- {
		n := cp()
		n.Prefix = append(append([]Op{}, sc.Prefix[:i]...), sc.Prefix[i+1:]...)
		out = append(out, n)
	}
	for t := range sc.Tasks {
		if len(sc.Tasks[t]) > 1 {
			n := cp()
			n.Tasks[t] = n.Tasks[t][:len(n.Tasks[t])/2]
			out = append(out, n)
			n2 := cp()
			n2.Tasks[t] = n2.Tasks[t][len(n2.Tasks[t])/2:]
			out = append(out, n2)
		}
	}
	for t := range sc.Tasks {
		for i := len(sc.Tasks[t]) - 1; i >= 0 && len(out) < 250; i-- {
			n := cp()
			n.Tasks[t] = append(n.Tasks[t][:i], n.Tasks[t][i+1:]...)
			out = append(out, n)
		}
	}
	return out
}

// enumerate returns every operation sequence up to a bounded depth over two
// packet identifiers, for a one-stage queue (QoS 1 out: register 1/2, PUBACK
// 1/2, collect) and for the two-stage queue (QoS 2 out: register 1/2, PUBREC
// 1/2, PUBCOMP 1/2, collect), executed by one caller against the list model.
func enumerate(tier string) []interface{} {
	d1, d2 := 5, 4
	if tier == "thorough" {
		d1, d2 = 7, 5
	}
	var out []interface{}
	build := func(kind string, alpha []Op, depth int) {
		idx := make([]int, depth)
		for n := 1; n <= depth; n++ {
			for i := range idx[:n] {
				idx[i] = 0
			}
			for {
				sc := &Script{Kind: kind, Tasks: [][]Op{nil}}
				for i := 0; i < n; i++ {
					op := alpha[idx[i]]
					op.Tok = i + 1
					sc.Tasks[0] = append(sc.Tasks[0], op)
				}
				sc.Tasks[0] = append(sc.Tasks[0], Op{K: "acked"})
				out = append(out, sc)
				k := n - 1
				for k >= 0 {
					idx[k]++
					if idx[k] < len(alpha) {
						break
					}
					idx[k] = 0
					k--
				}
				if k < 0 {
					break
				}
			}
		}
	}
	build("pub1", []Op{
		{K: "wait", Type: refmqtt.PUBLISH, ID: 1, QoS: 1, Size: 3}, {K: "wait", Type: refmqtt.PUBLISH, ID: 2, QoS: 1, Size: 5},
		{K: "ack", Type: refmqtt.PUBACK, ID: 1}, {K: "ack", Type: refmqtt.PUBACK, ID: 2}, {K: "acked"},
	}, d1)
	build("pub2out", []Op{
		{K: "wait", Type: refmqtt.PUBLISH, ID: 1, QoS: 2, Size: 3}, {K: "wait", Type: refmqtt.PUBLISH, ID: 2, QoS: 2, Size: 5},
		{K: "ack", Type: refmqtt.PUBREC, ID: 1}, {K: "ack", Type: refmqtt.PUBREC, ID: 2},
		{K: "ack", Type: refmqtt.PUBCOMP, ID: 1}, {K: "ack", Type: refmqtt.PUBCOMP, ID: 2}, {K: "acked"},
	}, d2)
	return out
}

func init() {
	world.Register(&world.Def{
		Enumerate: enumerate,
		Prop:      "C13", World: "ackq", Gen: gen, NewScript: func() interface{} { return &Script{} }, Run: Run, Shrink: shrink,
		MustProbes: []string{"grew_beyond_initial_capacity", "concurrent_phase_starts_on_shaped_ring"},
		Rule:       "script = one of the six queues of a sessions.Session (QoS 1 out, QoS 2 in, QoS 2 out, SUBSCRIBE, UNSUBSCRIBE, PINGREQ) driven by one caller with 30-330 (a quarter: 1000-5000) operations, half of those letting up to 600 requests pile up (growth beyond the initial 16 slots while wrapped), or by 1-3 registering tasks plus one processor task with 6-35 operations (half of these start, after a sequential prefix judged by the list model, on a ring that is wrapped and full or nearly full, so that a concurrent registration makes it grow while acknowledgements are recorded); operations: register (small identifier pool for collisions and reuse, refused kinds, a tenth of the PUBLISH requests with a remaining length of 126-129, around the one-byte limit of its encoding; a third of the PUBLISH requests are built with the library's setters instead of being decoded from bytes), acknowledge (oldest first or any order, unknown identifiers, PUBREC before PUBCOMP, non-acknowledgement types), collect. The harness overwrites its source buffers after every call. Oracle: list model (register ignores an identifier in flight, unknown identifiers change nothing, collect returns the maximal head prefix that carries a terminal acknowledgement, request/ack bytes and completion token identical); porcupine for concurrent histories. Enumerated in every batch in addition: every operation sequence up to depth 5 (thorough: 7) over {register 1, register 2, PUBACK 1, PUBACK 2, collect} on the QoS 1 queue and up to depth 4 (thorough: 5) over {register 1/2, PUBREC 1/2, PUBCOMP 1/2, collect} on the QoS 2 queue. Non-trivial = more than two calls.",
		Real:       []string{"sessions.Session.Init, sessions.Ackqueue (Wait, Ack, Acked, grow)", "message codecs used to copy requests and acknowledgements"},
		Stub:       []string{"sync (simulator model)", "callers (scripted tasks)"},
		Level:      "exploration", QuickRuns: 40000, ThoroughRuns: 2000000,
		Assumptions: []string{
			"what Wait returns for an identifier that is already in flight is not asserted (the statement says the request is ignored, not how that is reported)",
			"linearizability is checked for histories of at most 36 calls; porcupine time-outs count as inconclusive",
		},
	})
}
