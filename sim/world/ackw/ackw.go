// Package ackw simulates an acknowledgement queue of sessions.Session as a
// concurrent object (C13): 1-3 registering tasks call Wait while one processor
// task calls Ack and Acked -- the sharing pattern of the library.  Sequential
// histories (up to thousands of operations, hundreds in flight) are compared
// step by step with a list model; concurrent ones are checked with porcupine.
package ackw

import (
	"fmt"
	"strings"
	"time"

	"github.com/anishathalye/porcupine"
	"github.com/mdzio/go-mqtt/message"
	"github.com/mdzio/go-mqtt/sessions"

	"verif/sim/refmqtt"
	"verif/sim/simrt"
	"verif/sim/world"
)

// Op is one call on the queue.
type Op struct {
	K    string `json:"k"`           // wait ack acked
	Type byte   `json:"t,omitempty"` // packet type of the request (wait) or acknowledgement (ack)
	ID   uint16 `json:"id,omitempty"`
	QoS  byte   `json:"q,omitempty"`
	Size int    `json:"n,omitempty"`
	Tok  int    `json:"tok,omitempty"`
	// Built: the request is constructed with the library's setters (as the
	// client and Server.Publish do) instead of being decoded from bytes (as
	// the broker does for forwarded packets); only PUBLISH requests.
	Built bool `json:"built,omitempty"`
	// Dup: the PUBLISH request carries the DUP flag (a retransmission: of a
	// request that is still in flight, or one whose original never arrived)
	Dup bool `json:"dup,omitempty"`
}

// Script of an ackq run.
type Script struct {
	Kind  string `json:"kind"`  // pub1 pub2in pub2out sub unsub ping
	Tasks [][]Op `json:"tasks"` // task 0 is the processor (ack, acked); the others register
	// Prefix is executed by one caller before the tasks start (and judged by the
	// sequential model); it brings the ring into a chosen shape, for instance
	// wrapped and full, so that the concurrent phase starts there.
	Prefix []Op `json:"prefix,omitempty"`
}

type entry struct {
	id    uint16
	mtype byte
	msg   string // request bytes
	state byte   // 0 = none yet
	ack   string
	tok   int
}

type qstate struct {
	list []entry
	ping *entry
}

func (s qstate) key() string {
	var b strings.Builder
	for _, e := range s.list {
		fmt.Fprintf(&b, "%d:%d:%x:%d:%x:%d;", e.id, e.mtype, e.msg, e.state, e.ack, e.tok)
	}
	if s.ping != nil {
		fmt.Fprintf(&b, "P%d:%d", s.ping.state, s.ping.tok)
	}
	return b.String()
}

type released struct {
	ID    uint16
	Mtype byte
	State byte
	Msg   string
	Ack   string
	Tok   int
}

type outcome struct {
	err  bool
	done []released
}

// terminal reports whether acknowledgement type t ends the exchange of a
// request (from the protocol: PUBREC is the only non-terminal acknowledgement).
func terminal(t byte) bool {
	switch t {
	case refmqtt.PUBACK, refmqtt.PUBREL, refmqtt.PUBCOMP, refmqtt.SUBACK, refmqtt.UNSUBACK, refmqtt.PINGRESP:
		return true
	}
	return false
}

func isAck(t byte) bool {
	return terminal(t) || t == refmqtt.PUBREC
}

func reqBytes(op Op) []byte {
	p := &refmqtt.Packet{Type: op.Type, ID: op.ID}
	switch op.Type {
	case refmqtt.PUBLISH:
		p.QoS = op.QoS
		p.Dup = op.Dup && op.QoS > 0
		p.Topic = fmt.Sprintf("t/%d", op.Tok)
		p.Payload = make([]byte, op.Size)
		for i := range p.Payload {
			p.Payload[i] = byte(op.Tok*31 + i)
		}
		if op.QoS == 0 {
			p.ID = 0
		}
	case refmqtt.SUBSCRIBE:
		p.Filters, p.QoSs = []string{fmt.Sprintf("s/%d/#", op.Tok)}, []byte{op.QoS}
	case refmqtt.UNSUBSCRIBE:
		p.Filters = []string{fmt.Sprintf("s/%d/#", op.Tok)}
	case refmqtt.SUBACK:
		p.QoSs = []byte{op.QoS}
	}
	return refmqtt.Encode(p)
}

// step is the specification.  asserted reports whether the error outcome of
// the call is fixed by the statement.
func step(st qstate, op Op) (qstate, outcome, bool) {
	switch op.K {
	case "wait":
		switch op.Type {
		case refmqtt.PINGREQ:
			ns := qstate{list: st.list, ping: &entry{mtype: refmqtt.PINGREQ, tok: op.Tok}}
			return ns, outcome{}, true
		case refmqtt.PUBLISH, refmqtt.SUBSCRIBE, refmqtt.UNSUBSCRIBE:
			if op.Type == refmqtt.PUBLISH && op.QoS == 0 {
				return st, outcome{err: true}, true // refused, nothing changes
			}
			for _, e := range st.list {
				if e.id == op.ID {
					return st, outcome{}, false // identifier already in flight: ignored
				}
			}
			ns := qstate{ping: st.ping, list: append(append([]entry{}, st.list...), entry{id: op.ID, mtype: op.Type, msg: string(reqBytes(op)), tok: op.Tok})}
			return ns, outcome{}, true
		default:
			return st, outcome{err: true}, true // not a request
		}
	case "ack":
		if !isAck(op.Type) {
			return st, outcome{err: true}, true
		}
		if op.Type == refmqtt.PINGRESP {
			if st.ping != nil {
				p := *st.ping
				p.state = refmqtt.PINGRESP
				p.ack = string(reqBytes(op))
				return qstate{list: st.list, ping: &p}, outcome{}, true
			}
			return st, outcome{}, true
		}
		ns := qstate{ping: st.ping}
		for _, e := range st.list {
			if e.id == op.ID {
				e.state = op.Type
				e.ack = string(reqBytes(op))
			}
			ns.list = append(ns.list, e)
		}
		return ns, outcome{}, true
	case "acked":
		var o outcome
		ns := qstate{ping: st.ping}
		if st.ping != nil && st.ping.state == refmqtt.PINGRESP {
			o.done = append(o.done, released{Mtype: refmqtt.PINGREQ, State: refmqtt.PINGRESP, Msg: string([]byte{0xc0, 0}), Ack: string([]byte{0xd0, 0}), Tok: st.ping.tok})
			ns.ping = nil
		}
		i := 0
		for ; i < len(st.list) && terminal(st.list[i].state); i++ {
			e := st.list[i]
			o.done = append(o.done, released{e.id, e.mtype, e.state, e.msg, e.ack, e.tok})
		}
		ns.list = append([]entry{}, st.list[i:]...)
		return ns, o, true
	}
	return st, outcome{}, false
}

func libMessage(b []byte) message.Message {
	m, err := message.Type(b[0] >> 4).New()
	if err != nil {
		panic(err)
	}
	if _, err := m.Decode(b); err != nil {
		panic(fmt.Sprintf("harness packet does not decode: %v (% x)", err, b))
	}
	return m
}

func exec(q *sessions.Ackqueue, op Op) outcome {
	var o outcome
	switch op.K {
	case "wait":
		buf := reqBytes(op)
		m := libMessage(buf)
		if op.Built && op.Type == refmqtt.PUBLISH && op.QoS > 0 {
			// same packet, built field by field
			ref, _, _ := refmqtt.Parse(buf)
			pm := message.NewPublishMessage()
			pm.SetTopic([]byte(ref.Topic))
			pm.SetPayload(append([]byte{}, ref.Payload...))
			pm.SetQoS(ref.QoS)
			pm.SetPacketID(ref.ID)
			pm.SetDup(ref.Dup)
			m = pm
		}
		err := q.Wait(m, op.Tok)
		o.err = err != nil
		for i := range buf {
			buf[i] = 0xee // the queue must have copied what it needs
		}
	case "ack":
		buf := reqBytes(op)
		m := libMessage(buf)
		err := q.Ack(m)
		o.err = err != nil
		for i := range buf {
			buf[i] = 0xee
		}
	case "acked":
		for _, a := range q.Acked() {
			tok, _ := a.OnComplete.(int)
			o.done = append(o.done, released{a.Pktid, byte(a.Mtype), byte(a.State), string(a.Msgbuf), string(a.Ackbuf), tok})
		}
	}
	return o
}

func same(op Op, got, want outcome, asserted bool) (bool, string) {
	if asserted && got.err != want.err {
		return false, fmt.Sprintf("error=%v, specification says error=%v", got.err, want.err)
	}
	if op.K != "acked" {
		return true, ""
	}
	if len(got.done) != len(want.done) {
		return false, fmt.Sprintf("handed back %d request(s) %s, expected %d %s", len(got.done), ids(got.done), len(want.done), ids(want.done))
	}
	for i := range got.done {
		g, w := got.done[i], want.done[i]
		if g.ID != w.ID || g.Mtype != w.Mtype || g.State != w.State || g.Tok != w.Tok {
			return false, fmt.Sprintf("position %d: handed back {id %d type %d state %d completion %d}, expected {id %d type %d state %d completion %d}", i, g.ID, g.Mtype, g.State, g.Tok, w.ID, w.Mtype, w.State, w.Tok)
		}
		if g.Msg != w.Msg {
			return false, fmt.Sprintf("position %d (id %d): request bytes differ from the registered request (%d vs %d bytes)", i, g.ID, len(g.Msg), len(w.Msg))
		}
		if g.Ack != w.Ack {
			return false, fmt.Sprintf("position %d (id %d): acknowledgement bytes differ from the final acknowledgement (% x vs % x)", i, g.ID, g.Ack, w.Ack)
		}
	}
	return true, ""
}

func ids(r []released) string {
	var s []string
	for _, x := range r {
		s = append(s, fmt.Sprint(x.ID))
	}
	return "[" + strings.Join(s, " ") + "]"
}

type call struct {
	op       Op
	task     int
	inv, ret int64
	got      outcome
}

// Run executes an ackq script.
func Run(script interface{}, cfg simrt.Config) *world.Outcome {
	sc := script.(*Script)
	out := &world.Outcome{Summary: map[string]interface{}{}}
	if cfg.MaxSteps == 0 {
		cfg.MaxSteps = 800000
	}
	var calls, pre []*call
	res := simrt.Run(cfg, nil, func(s *simrt.Sim) {
		sess := &sessions.Session{}
		cm := message.NewConnectMessage()
		cm.SetClientID([]byte("ackw"))
		cm.SetVersion(4)
		if err := sess.Init(cm); err != nil {
			out.Aborted = "session init: " + err.Error()
			return
		}
		q := map[string]*sessions.Ackqueue{"pub1": sess.Pub1ack, "pub2in": sess.Pub2in, "pub2out": sess.Pub2out, "sub": sess.Suback, "unsub": sess.Unsuback, "ping": sess.Pingack}[sc.Kind]
		if q == nil {
			q = sess.Pub1ack
		}
		for _, op := range sc.Prefix {
			c := &call{op: op, task: -1}
			c.inv = s.Stamp()
			c.got = exec(q, op)
			c.ret = s.Stamp()
			pre = append(pre, c)
		}
		var ts []*simrt.Task
		for ti, ops := range sc.Tasks {
			ti, ops := ti, ops
			ts = append(ts, s.Go(fmt.Sprintf("caller%d", ti), false, func() {
				for _, op := range ops {
					c := &call{op: op, task: ti}
					s.Yield(simrt.YHarness)
					c.inv = s.Stamp()
					c.got = exec(q, op)
					c.ret = s.Stamp()
					calls = append(calls, c)
				}
			}))
		}
		s.Quiesce()
		for _, t := range ts {
			if !t.Done() {
				k, _ := t.WaitingOn()
				out.Add("C13", "call-returns", "C13/call-blocks/"+k.String(), fmt.Sprintf("task %s never returned from an ack queue call (parked on %s)", t.Name, k))
			}
		}
	})
	out.Res = res
	if res.Status == simrt.StatusCrash {
		out.Add("C13", "no-panic", "C13/panic", "an ack queue call panicked: "+res.CrashMsg+"\n"+res.CrashStack)
		return out
	}
	if res.Status != simrt.StatusOK || out.Aborted != "" {
		if out.Aborted == "" {
			out.Aborted = res.Status.String()
		}
		return out
	}
	n, maxIn := 0, 0
	for _, t := range sc.Tasks {
		n += len(t)
	}
	out.Summary["kind"] = sc.Kind
	out.Summary["tasks"] = len(sc.Tasks)
	out.Summary["ops"] = n
	out.Nontrivial = n > 2
	st0 := qstate{}
	for i, c := range pre {
		ns, want, asserted := step(st0, c.op)
		if ok, why := same(c.op, c.got, want, asserted); !ok {
			out.Add("C13", "matches-list-model", "C13/sequential/"+c.op.K, fmt.Sprintf("prefix call %d %s(type %s id %d qos %d): %s; %d request(s) in flight in the model", i, c.op.K, refmqtt.TypeName(c.op.Type), c.op.ID, c.op.QoS, why, len(st0.list)))
			return out
		}
		st0 = ns
	}
	if len(sc.Prefix) > 0 {
		out.Summary["prefix_ops"] = len(sc.Prefix)
		out.Summary["in_flight_after_prefix"] = len(st0.list)
		res.Probes["concurrent_phase_starts_on_shaped_ring"]++
	}
	if len(sc.Tasks) == 1 {
		st := st0
		for i, c := range calls {
			ns, want, asserted := step(st, c.op)
			if ok, why := same(c.op, c.got, want, asserted); !ok {
				out.Add("C13", "matches-list-model", "C13/sequential/"+c.op.K, fmt.Sprintf("call %d %s(type %s id %d qos %d): %s; %d request(s) in flight in the model", i, c.op.K, refmqtt.TypeName(c.op.Type), c.op.ID, c.op.QoS, why, len(st.list)))
				break
			}
			st = ns
			if len(st.list) > maxIn {
				maxIn = len(st.list)
			}
		}
		out.Summary["max_in_flight"] = maxIn
		if maxIn > 16 {
			res.Probes["grew_beyond_initial_capacity"]++
		}
		return out
	}
	var ops []porcupine.Operation
	for _, c := range calls {
		ops = append(ops, porcupine.Operation{ClientId: c.task, Input: c.op, Call: c.inv, Output: c.got, Return: c.ret})
	}
	model := porcupine.Model{
		Init: func() interface{} { return st0 },
		Step: func(sti, in, o interface{}) (bool, interface{}) {
			ns, want, asserted := step(sti.(qstate), in.(Op))
			ok, _ := same(in.(Op), o.(outcome), want, asserted)
			return ok, ns
		},
		Equal: func(a, b interface{}) bool { return a.(qstate).key() == b.(qstate).key() },
	}
	switch porcupine.CheckOperationsTimeout(model, ops, 20*time.Second) {
	case porcupine.Ok:
		out.Summary["porcupine_ok"] = 1
	case porcupine.Unknown:
		out.Summary["porcupine_unknown"] = 1
	case porcupine.Illegal:
		out.Summary["porcupine_illegal"] = 1
		var b strings.Builder
		for _, c := range calls {
			fmt.Fprintf(&b, "[t%d %d-%d %s(%s id %d q%d) -> err=%v %s] ", c.task, c.inv, c.ret, c.op.K, refmqtt.TypeName(c.op.Type), c.op.ID, c.op.QoS, c.got.err, ids(c.got.done))
		}
		out.Add("C13", "linearizable", "C13/not-linearizable", "the concurrent history has no linearization against the list model: "+b.String())
	}
	return out
}
