// Command vsim is the simulation worker: it runs seeds of one property's world
// inside this process and reports aggregates, violations and replay files.
package main

import (
	"bufio"
	"encoding/binary"
	"encoding/json"
	"flag"
	"fmt"
	"os"
	"runtime"
	"runtime/pprof"
	"sort"
	"strings"
	"syscall"
	"time"

	logging "github.com/mdzio/go-logging"

	"verif/sim/simrt"
	"verif/sim/world"
	_ "verif/sim/world/all"
)

type violationRec struct {
	Index     int             `json:"index"`
	Violation world.Violation `json:"violation"`
	Steps     int             `json:"steps"`
	Strategy  string          `json:"strategy"`
}

type summary struct {
	Worker     int                      `json:"worker"`
	Runs       int                      `json:"runs"`
	Nontrivial int                      `json:"nontrivial"`
	Aborted    map[string]int           `json:"aborted"`
	Status     map[string]int           `json:"status"`
	Probes     map[string]int           `json:"probes"`
	Faults     map[string]int           `json:"faults"`
	Strategies map[string]int           `json:"strategies"`
	Steps      int64                    `json:"steps"`
	Switches   int64                    `json:"switches"`
	VTimeNs    int64                    `json:"vtime_ns"`
	Side       map[string]int           `json:"side"` // violations of other properties, by signature
	Own        map[string]int           `json:"own"`  // violations of this property, by signature
	Samples    []map[string]interface{} `json:"samples"`
	Rechecks   int                      `json:"rechecks"`
	Nondet     int                      `json:"nondeterministic"`
	Abandoned  int                      `json:"abandoned_tasks"`
	WallS      float64                  `json:"wall_s"`
	NextIndex  int                      `json:"next_index"`
	Enumerated int                      `json:"enumerated"`
	Porcupine  map[string]int           `json:"porcupine,omitempty"`
}

func newSummary(w int) *summary {
	return &summary{Worker: w, Aborted: map[string]int{}, Status: map[string]int{}, Probes: map[string]int{}, Faults: map[string]int{}, Strategies: map[string]int{}, Side: map[string]int{}, Own: map[string]int{}, Porcupine: map[string]int{}}
}

func main() {
	if pf := os.Getenv("VSIM_PROF"); pf != "" {
		f, _ := os.Create(pf)
		pprof.StartCPUProfile(f)
		defer pprof.StopCPUProfile()
	}
	logging.SetLevel(logging.OffLevel)
	if lv := os.Getenv("VSIM_LOG"); lv != "" {
		var l logging.LogLevel
		if l.Set(lv) == nil {
			logging.SetLevel(l)
		}
	}
	if len(os.Args) < 2 {
		fmt.Fprintln(os.Stderr, "usage: vsim batch|shrink|replay|one ...")
		os.Exit(2)
	}
	switch os.Args[1] {
	case "batch":
		batch(os.Args[2:])
	case "shrink":
		shrink(os.Args[2:])
	case "replay":
		replay(os.Args[2:])
	case "one":
		one(os.Args[2:])
	case "props":
		for _, p := range world.Props() {
			d := world.Lookup(p)
			b, _ := json.Marshal(map[string]interface{}{"prop": p, "world": d.World, "level": d.Level, "quick": d.QuickRuns, "thorough": d.ThoroughRuns, "rule": d.Rule, "real": d.Real, "stub": d.Stub, "assumptions": d.Assumptions, "must_probes": d.MustProbes})
			fmt.Println(string(b))
		}
	default:
		fmt.Fprintln(os.Stderr, "unknown command", os.Args[1])
		os.Exit(2)
	}
}

func lookup(prop string) *world.Def {
	d := world.Lookup(prop)
	if d == nil {
		fmt.Fprintf(os.Stderr, "vsim: no world registered for property %s\n", prop)
		os.Exit(2)
	}
	return d
}

func batch(args []string) {
	fs := flag.NewFlagSet("batch", flag.ExitOnError)
	prop := fs.String("prop", "", "property id")
	tier := fs.String("tier", "quick", "tier")
	seed := fs.Uint64("seed", 1, "VERIF_SEED")
	worker := fs.Int("worker", 0, "worker number")
	workers := fs.Int("workers", 1, "number of workers")
	count := fs.Int("count", 1000, "total number of runs over all workers")
	start := fs.Int("start", -1, "first index (default: worker number)")
	deadline := fs.Int64("deadline", 0, "unix time after which no new run starts")
	hashFile := fs.String("hashes", "", "file to append distinct schedule hashes to")
	maxViol := fs.Int("maxviol", 40, "stop after this many violation records")
	fs.Parse(args)
	d := lookup(*prop)
	out := bufio.NewWriterSize(os.Stdout, 1<<16)
	defer out.Flush()
	sum := newSummary(*worker)
	t0 := time.Now()
	hashes := map[uint64]struct{}{}
	states := map[uint64]struct{}{}
	nviol := 0
	i := *start
	if i < 0 {
		i = *worker
	}
	flushHashes := func() {
		if *hashFile == "" {
			return
		}
		f, err := os.OpenFile(*hashFile, os.O_CREATE|os.O_APPEND|os.O_WRONLY, 0o644)
		if err != nil {
			return
		}
		w := bufio.NewWriter(f)
		var b [9]byte
		for h := range hashes {
			b[0] = 'h'
			binary.LittleEndian.PutUint64(b[1:], h)
			w.Write(b[:])
		}
		for h := range states {
			b[0] = 's'
			binary.LittleEndian.PutUint64(b[1:], h)
			w.Write(b[:])
		}
		w.Flush()
		f.Close()
	}
	emit := func() {
		sum.WallS = time.Since(t0).Seconds()
		sum.NextIndex = i
		b, _ := json.Marshal(sum)
		fmt.Fprintf(out, "S %s\n", b)
		out.Flush()
		flushHashes()
	}
	// enumerated scripts first (worker-striped)
	var enum []interface{}
	if d.Enumerate != nil && *start < 0 {
		enum = d.Enumerate(*tier)
	}
	runOne := func(idx int, script interface{}, rs uint64) {
		fmt.Fprintf(out, "B %d\n", idx)
		out.Flush()
		if simrt.RaceBuild {
			fmt.Fprintf(os.Stderr, "RUN %d\n", idx)
		}
		o := d.Run(script, simrt.Config{Seed: rs})
		sum.Runs++
		if simrt.RaceBuild {
			if tag, ok := o.Summary["run_tag"].(string); ok {
				fmt.Fprintf(os.Stderr, "RUNTAG %d %s\n", idx, tag)
			}
		}
		if o.Aborted != "" {
			sum.Aborted[o.Aborted]++
		}
		if o.Res != nil {
			r := o.Res
			sum.Status[r.Status.String()]++
			sum.Steps += int64(r.Steps)
			sum.Switches += int64(r.Switches)
			sum.VTimeNs += int64(r.VTime)
			sum.Strategies[r.Strategy]++
			sum.Abandoned += len(r.Left)
			for k, v := range r.Probes {
				sum.Probes[k] += v
			}
			for k, v := range r.Faults {
				sum.Faults[k] += v
			}
			if o.Nontrivial {
				sum.Nontrivial++
				hashes[r.SchedHash] = struct{}{}
			}
			for h := range r.StateSigs {
				states[h] = struct{}{}
			}
			if len(sum.Samples) < 3 && o.Nontrivial {
				s := map[string]interface{}{"index": idx, "run_seed": rs, "steps": r.Steps, "switches": r.Switches, "virtual_time_s": r.VTime.Seconds(), "strategy": r.Strategy, "faults": r.Faults, "status": r.Status.String()}
				for k, v := range o.Summary {
					s[k] = v
				}
				sum.Samples = append(sum.Samples, s)
			}
			// determinism recheck of ~1% of the runs
			if idx%97 == 3 && o.Aborted == "" {
				o2 := d.Run(script, simrt.Config{Seed: rs})
				sum.Rechecks++
				if o2.Res == nil || o2.Res.LogHash != r.LogHash || o2.Res.SchedHash != r.SchedHash || o2.Res.Steps != r.Steps {
					sum.Nondet++
					fmt.Fprintf(out, "N %d\n", idx)
				}
				if o2.Res != nil {
					sum.Abandoned += len(o2.Res.Left)
				}
			}
		}
		for k, v := range o.Summary {
			if strings.HasPrefix(k, "porcupine_") {
				if n, ok := v.(int); ok {
					sum.Porcupine[strings.TrimPrefix(k, "porcupine_")] += n
				}
			}
		}
		for _, v := range o.Violations {
			if v.Prop != d.Prop && !(os.Getenv("VSIM_OWN") != "" && strings.HasPrefix(v.Sig, os.Getenv("VSIM_OWN"))) {
				sum.Side[v.Prop+" "+v.Sig]++
				continue
			}
			sum.Own[v.Sig]++
			if sum.Own[v.Sig] <= 3 && nviol < *maxViol {
				nviol++
				rec := violationRec{Index: idx, Violation: v}
				if o.Res != nil {
					rec.Steps = o.Res.Steps
					rec.Strategy = o.Res.Strategy
				}
				b, _ := json.Marshal(rec)
				fmt.Fprintf(out, "V %s\n", b)
				out.Flush()
			}
		}
	}
	for e := *worker; e < len(enum); e += *workers {
		runOne(-1-e, enum[e], world.RunSeed(*seed, d.Prop+"/enum", e))
		sum.Enumerated++
	}
	for ; i < *count; i += *workers {
		if *deadline > 0 && time.Now().Unix() >= *deadline {
			break
		}
		rs := world.RunSeed(*seed, d.Prop, i)
		script := d.Gen(*tier, *seed, i)
		runOne(i, script, rs)
		if sum.Abandoned > 3000 || runtime.NumGoroutine() > 6000 {
			// recycle the process: abandoned tasks of hung runs are inert but
			// cost memory (and race-detector thread slots)
			i += *workers
			emit()
			var nargs []string
			skip := false
			for _, a := range os.Args[2:] {
				if skip {
					skip = false
					continue
				}
				if a == "-start" || a == "--start" {
					skip = true
					continue
				}
				if strings.HasPrefix(a, "-start=") || strings.HasPrefix(a, "--start=") {
					continue
				}
				nargs = append(nargs, a)
			}
			argv := append([]string{os.Args[0], "batch"}, nargs...)
			argv = append(argv, "-start", fmt.Sprint(i))
			out.Flush()
			syscall.Exec(os.Args[0], argv, os.Environ())
			os.Exit(2)
		}
	}
	emit()
}

func genOrEnum(d *world.Def, tier string, seed uint64, index int) (interface{}, uint64) {
	if index < 0 {
		e := -1 - index
		return d.Enumerate(tier)[e], world.RunSeed(seed, d.Prop+"/enum", e)
	}
	return d.Gen(tier, seed, index), world.RunSeed(seed, d.Prop, index)
}

func shrink(args []string) {
	fs := flag.NewFlagSet("shrink", flag.ExitOnError)
	prop := fs.String("prop", "", "property id")
	tier := fs.String("tier", "quick", "tier")
	seed := fs.Uint64("seed", 1, "VERIF_SEED")
	index := fs.Int("index", 0, "run index")
	sig := fs.String("sig", "", "violation signature to preserve")
	outFile := fs.String("out", "", "replay file to write")
	budget := fs.Int("budget", 1500, "maximum number of shrink executions")
	seconds := fs.Int("seconds", 60, "wall-clock budget")
	tree := fs.String("tree", "", "tree hash to record")
	fs.Parse(args)
	d := lookup(*prop)
	script, rs := genOrEnum(d, *tier, *seed, *index)
	o := d.Run(script, simrt.Config{Seed: rs})
	var target *world.Violation
	for i := range o.Violations {
		v := &o.Violations[i]
		if v.Prop == d.Prop && (*sig == "" || v.Sig == *sig) {
			target = v
			break
		}
	}
	if target == nil {
		fmt.Fprintf(os.Stderr, "vsim shrink: run %d does not reproduce %q (got %v)\n", *index, *sig, o.Violations)
		os.Exit(3)
	}
	tr := o.Res.Trace
	rp := world.Replay{Prop: d.Prop, World: d.World, Seed: *seed, Index: *index, Tier: *tier, Violation: *target, TreeHash: *tree}
	sh := &world.Shrinker{D: d, Target: *target, Budget: *budget}
	deadline := time.Now().Add(time.Duration(*seconds) * time.Second)
	_ = deadline
	best, bestTr, bestOut := sh.Minimise(script, &tr)
	if bestOut == nil {
		// replay from the trace is not stable: keep the unminimised run
		best, bestTr, bestOut = script, &tr, o
		rp.Note = "trace replay did not reproduce; file holds the unminimised run (replays by seed)"
		bestTr = nil
	} else {
		rp.Minimised = true
	}
	sb, _ := json.Marshal(best)
	rp.Script = sb
	rp.Trace = bestTr
	for _, v := range bestOut.Violations {
		if v.Prop == target.Prop && v.Sig == target.Sig {
			rp.Violation = v
		}
	}
	rp.LogHash = fmt.Sprintf("%016x", bestOut.Res.LogHash)
	rp.Steps = bestOut.Res.Steps
	rp.Note += fmt.Sprintf(" shrink executions: %d; original steps %d, trace choices %d -> %d", sh.Tries, o.Res.Steps, len(tr.Idx), traceLen(bestTr))
	b, _ := json.MarshalIndent(rp, "", " ")
	if err := os.WriteFile(*outFile, b, 0o644); err != nil {
		fmt.Fprintln(os.Stderr, err)
		os.Exit(2)
	}
	fmt.Printf("shrunk: %s\n", rp.Note)
}

func traceLen(t *simrt.Trace) int {
	if t == nil {
		return -1
	}
	return len(t.Idx)
}

func replay(args []string) {
	fs := flag.NewFlagSet("replay", flag.ExitOnError)
	file := fs.String("file", "", "replay file")
	verbose := fs.Bool("v", false, "print the event log")
	fs.Parse(args)
	b, err := os.ReadFile(*file)
	if err != nil {
		fmt.Fprintln(os.Stderr, err)
		os.Exit(2)
	}
	var rp world.Replay
	if err := json.Unmarshal(b, &rp); err != nil {
		fmt.Fprintln(os.Stderr, err)
		os.Exit(2)
	}
	d := lookup(rp.Prop)
	script := d.NewScript()
	if err := json.Unmarshal(rp.Script, script); err != nil {
		fmt.Fprintln(os.Stderr, err)
		os.Exit(2)
	}
	cfg := simrt.Config{Replay: rp.Trace, Verbose: *verbose}
	if rp.Trace == nil {
		_, cfg.Seed = genOrEnum(d, rp.Tier, rp.Seed, rp.Index)
	}
	o := d.Run(script, cfg)
	if *verbose && o.Res != nil {
		for _, l := range o.Res.Log {
			fmt.Println(l)
		}
	}
	hash := ""
	if o.Res != nil {
		hash = fmt.Sprintf("%016x", o.Res.LogHash)
	}
	for _, v := range o.Violations {
		if v.Prop == rp.Violation.Prop && v.Sig == rp.Violation.Sig {
			fmt.Printf("VIOLATION property=%s replay=%s\n", rp.Prop, *file)
			fmt.Printf("  invariant: %s\n  signature: %s\n  detail: %s\n  log_hash: %s (recorded %s) steps=%d\n", v.Invariant, v.Sig, v.Detail, hash, rp.LogHash, o.Res.Steps)
			if hash != rp.LogHash {
				fmt.Println("  WARNING: event-log hash differs from the recorded one")
				os.Exit(4)
			}
			os.Exit(1)
		}
	}
	fmt.Printf("replay %s: violation %s not reproduced (violations now: %v)\n", *file, rp.Violation.Sig, o.Violations)
	os.Exit(0)
}

func one(args []string) {
	fs := flag.NewFlagSet("one", flag.ExitOnError)
	prop := fs.String("prop", "", "property id")
	tier := fs.String("tier", "quick", "tier")
	seed := fs.Uint64("seed", 1, "VERIF_SEED")
	index := fs.Int("index", 0, "run index")
	verbose := fs.Bool("v", false, "print the event log")
	showScript := fs.Bool("script", false, "print the script")
	fs.Parse(args)
	d := lookup(*prop)
	script, rs := genOrEnum(d, *tier, *seed, *index)
	if *showScript {
		b, _ := json.Marshal(script)
		fmt.Println(string(b))
	}
	o := d.Run(script, simrt.Config{Seed: rs, Verbose: *verbose})
	if o.Res != nil {
		if *verbose {
			for _, l := range o.Res.Log {
				fmt.Println(l)
			}
		}
		r := o.Res
		fmt.Printf("status=%s steps=%d switches=%d vtime=%v strategy=%s loghash=%016x schedhash=%016x left=%d\n", r.Status, r.Steps, r.Switches, r.VTime, r.Strategy, r.LogHash, r.SchedHash, len(r.Left))
		if r.Status == simrt.StatusCrash {
			fmt.Println("crash:", r.CrashMsg)
			fmt.Println(r.CrashStack)
		}
		if len(r.Left) > 0 {
			fmt.Println("left:", simrt.FormatTasks(r.Left))
		}
		var ks []string
		for k, v := range r.Probes {
			ks = append(ks, fmt.Sprintf("%s=%d", k, v))
		}
		sort.Strings(ks)
		fmt.Println("probes:", ks, "faults:", r.Faults)
	}
	fmt.Println("aborted:", o.Aborted, "nontrivial:", o.Nontrivial, "summary:", o.Summary)
	for _, v := range o.Violations {
		fmt.Printf("VIOL %s %s\n   %s\n", v.Prop, v.Sig, v.Detail)
	}
}
