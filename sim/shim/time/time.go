// Package time is the simulator's model of package time: inside a simulation
// Now is the virtual clock and Sleep parks the task on a virtual timer.
// Timers, tickers and After are deliberately absent: the library uses none,
// and code that starts using them does not compile against this package
// (reported by the driver as an infrastructure error, never as a violation).
package time

import (
	gotime "time"

	"verif/sim/simrt"
)

type (
	Duration = gotime.Duration
	Time     = gotime.Time
	Month    = gotime.Month
	Weekday  = gotime.Weekday
	Location = gotime.Location
)

const (
	Nanosecond  = gotime.Nanosecond
	Microsecond = gotime.Microsecond
	Millisecond = gotime.Millisecond
	Second      = gotime.Second
	Minute      = gotime.Minute
	Hour        = gotime.Hour

	RFC3339     = gotime.RFC3339
	RFC3339Nano = gotime.RFC3339Nano
)

var (
	UTC   = gotime.UTC
	Local = gotime.Local
)

// Epoch is the wall-clock instant of virtual time zero.
var Epoch = gotime.Date(2024, 1, 1, 0, 0, 0, 0, gotime.UTC)

//go:noinline
func Now() Time {
	if s := simrt.Cur(); s != nil {
		return Epoch.Add(s.Now())
	}
	return gotime.Now()
}

//go:noinline
func Since(t Time) Duration { return Now().Sub(t) }

//go:noinline
func Until(t Time) Duration { return t.Sub(Now()) }

//go:noinline
func Sleep(d Duration) {
	if s := simrt.Cur(); s != nil {
		s.Sleep(d)
		return
	}
	gotime.Sleep(d)
}

func Unix(sec, nsec int64) Time { return gotime.Unix(sec, nsec) }
func Date(year int, month Month, day, hour, min, sec, nsec int, loc *Location) Time {
	return gotime.Date(year, month, day, hour, min, sec, nsec, loc)
}
func ParseDuration(s string) (Duration, error) { return gotime.ParseDuration(s) }

// ToVirtual converts a wall-clock deadline to virtual time since run start;
// the zero Time means "no deadline" (-1).
func ToVirtual(t Time) Duration {
	if t.IsZero() {
		return -1
	}
	return t.Sub(Epoch)
}
