// Package sync is the simulator's model of package sync.  Library code is
// compiled against it (import substitution in a scratch copy of the tree).
// Inside a simulation every operation is a scheduling point and blocking is
// done by the simulator; next to the simulated operation the real primitive is
// executed as well (never contended, because the simulator only grants what is
// free) so that a -race build sees exactly the happens-before edges the
// library creates.  Outside a simulation the real primitive is used directly.
package sync

import (
	"fmt"
	gosync "sync"

	"verif/sim/simrt"
)

// Locker is sync.Locker.
type Locker = gosync.Locker

// Pool and Map are passed through unmodelled (they never block).
type Pool = gosync.Pool
type Map = gosync.Map

type mstate struct {
	sim     *simrt.Sim
	held    bool
	holder  *simrt.Task
	waiters []*simrt.Task
}

// Mutex models sync.Mutex.
type Mutex struct {
	real gosync.Mutex
	st   mstate
}

func (m *Mutex) state(s *simrt.Sim) *mstate {
	if m.st.sim != s {
		// first use in this run (state left by an abandoned run is discarded)
		m.st = mstate{sim: s}
		m.real = gosync.Mutex{}
	}
	return &m.st
}

//go:noinline
func (m *Mutex) Lock() {
	s := simrt.Cur()
	if s == nil {
		m.real.Lock()
		return
	}
	s.Yield(simrt.YLock)
	st := m.state(s)
	me := s.Current()
	for st.held {
		st.waiters = append(st.waiters, me)
		info := ""
		if st.holder != nil {
			info = "held by " + st.holder.Name
		}
		s.Block(simrt.WMutex, m, info)
	}
	st.held = true
	st.holder = me
	s.LockHeld(m, me.Name)
	m.real.Lock()
}

//go:noinline
func (m *Mutex) TryLock() bool {
	s := simrt.Cur()
	if s == nil {
		return m.real.TryLock()
	}
	s.Yield(simrt.YLock)
	st := m.state(s)
	if st.held {
		return false
	}
	st.held = true
	st.holder = s.Current()
	s.LockHeld(m, st.holder.Name)
	m.real.Lock()
	return true
}

//go:noinline
func (m *Mutex) Unlock() {
	s := simrt.Cur()
	if s == nil {
		m.real.Unlock()
		return
	}
	st := m.state(s)
	if !st.held {
		s.Fatal("sync: unlock of unlocked mutex")
	}
	m.real.Unlock()
	st.held = false
	st.holder = nil
	s.LockFree(m)
	for _, w := range st.waiters {
		s.Wake(w)
	}
	st.waiters = st.waiters[:0]
	s.Yield(simrt.YUnlock)
}

// Held reports (to the harness) whether the simulated mutex is held.
func (m *Mutex) Held() bool { return m.st.sim == simrt.Cur() && m.st.held }

// RWMutex models sync.RWMutex (writer preference like the real one: once a
// writer waits, new readers queue behind it).
type RWMutex struct {
	real gosync.RWMutex
	st   rwstate
}

type rwstate struct {
	sim      *simrt.Sim
	writer   bool
	readers  int
	wwaiting int
	holder   *simrt.Task
	waiters  []*simrt.Task
}

func (m *RWMutex) state(s *simrt.Sim) *rwstate {
	if m.st.sim != s {
		m.st = rwstate{sim: s}
		m.real = gosync.RWMutex{}
	}
	return &m.st
}

func (st *rwstate) wakeAll(s *simrt.Sim) {
	for _, w := range st.waiters {
		s.Wake(w)
	}
	st.waiters = st.waiters[:0]
}

//go:noinline
func (m *RWMutex) Lock() {
	s := simrt.Cur()
	if s == nil {
		m.real.Lock()
		return
	}
	s.Yield(simrt.YLock)
	st := m.state(s)
	me := s.Current()
	if st.writer || st.readers > 0 {
		st.wwaiting++
		for st.writer || st.readers > 0 {
			st.waiters = append(st.waiters, me)
			s.Block(simrt.WWLock, m, "")
		}
		st.wwaiting--
	}
	st.writer = true
	st.holder = me
	s.LockHeld(m, me.Name+"(w)")
	m.real.Lock()
}

//go:noinline
func (m *RWMutex) Unlock() {
	s := simrt.Cur()
	if s == nil {
		m.real.Unlock()
		return
	}
	st := m.state(s)
	if !st.writer {
		s.Fatal("sync: Unlock of unlocked RWMutex")
	}
	m.real.Unlock()
	st.writer = false
	st.holder = nil
	s.LockFree(m)
	st.wakeAll(s)
	s.Yield(simrt.YUnlock)
}

//go:noinline
func (m *RWMutex) RLock() {
	s := simrt.Cur()
	if s == nil {
		m.real.RLock()
		return
	}
	s.Yield(simrt.YRLock)
	st := m.state(s)
	me := s.Current()
	for st.writer || st.wwaiting > 0 {
		st.waiters = append(st.waiters, me)
		s.Block(simrt.WRLock, m, "")
	}
	st.readers++
	s.LockHeld(m, fmt.Sprintf("%d reader(s), last %s", st.readers, me.Name))
	m.real.RLock()
}

//go:noinline
func (m *RWMutex) RUnlock() {
	s := simrt.Cur()
	if s == nil {
		m.real.RUnlock()
		return
	}
	st := m.state(s)
	if st.readers <= 0 {
		s.Fatal("sync: RUnlock of unlocked RWMutex")
	}
	m.real.RUnlock()
	st.readers--
	if st.readers == 0 {
		s.LockFree(m)
		st.wakeAll(s)
	}
	s.Yield(simrt.YRUnlock)
}

// RLocker mirrors sync.RWMutex.RLocker.
func (m *RWMutex) RLocker() Locker { return (*rlocker)(m) }

type rlocker RWMutex

func (r *rlocker) Lock()   { (*RWMutex)(r).RLock() }
func (r *rlocker) Unlock() { (*RWMutex)(r).RUnlock() }

// Cond models sync.Cond: FIFO wake-up, no spurious wake-ups, the waiter is
// enqueued before L is released.
type Cond struct {
	L Locker

	sim     *simrt.Sim
	waiters []*condWaiter
	real    *gosync.Cond
}

type condWaiter struct {
	t        *simrt.Task
	notified bool
}

// NewCond mirrors sync.NewCond.
//
//go:noinline
func NewCond(l Locker) *Cond { return &Cond{L: l} }

func (c *Cond) enter(s *simrt.Sim) {
	if c.sim != s {
		c.sim = s
		c.waiters = nil
	}
}

//go:noinline
func (c *Cond) Wait() {
	s := simrt.Cur()
	if s == nil {
		c.realCond().Wait()
		return
	}
	// a goroutine can be pre-empted between the test that made it decide to
	// wait and its registration as a waiter: a wake-up sent without the
	// condition's lock in that window is lost
	s.Yield(simrt.YCondWait)
	c.enter(s)
	w := &condWaiter{t: s.Current()}
	c.waiters = append(c.waiters, w)
	c.L.Unlock()
	for !w.notified {
		s.Block(simrt.WCond, c, "")
	}
	c.L.Lock()
}

func (c *Cond) realCond() *gosync.Cond {
	if c.real == nil {
		c.real = gosync.NewCond(c.L)
	}
	return c.real
}

//go:noinline
func (c *Cond) Signal() {
	s := simrt.Cur()
	if s == nil {
		c.realCond().Signal()
		return
	}
	c.enter(s)
	if len(c.waiters) > 0 {
		w := c.waiters[0]
		c.waiters = c.waiters[1:]
		w.notified = true
		s.Wake(w.t)
	}
	s.Yield(simrt.YCondSignal)
}

//go:noinline
func (c *Cond) Broadcast() {
	s := simrt.Cur()
	if s == nil {
		c.realCond().Broadcast()
		return
	}
	c.enter(s)
	for _, w := range c.waiters {
		w.notified = true
		s.Wake(w.t)
	}
	c.waiters = nil
	s.Yield(simrt.YCondSignal)
}

// Waiters reports (to the harness) how many tasks are parked in Wait.
func (c *Cond) Waiters() int {
	if c.sim != simrt.Cur() {
		return 0
	}
	return len(c.waiters)
}

// WaitGroup models sync.WaitGroup.
type WaitGroup struct {
	real    gosync.WaitGroup
	sim     *simrt.Sim
	n       int
	waiters []*simrt.Task
}

func (wg *WaitGroup) enter(s *simrt.Sim) {
	if wg.sim != s {
		wg.sim = s
		wg.n = 0
		wg.waiters = nil
		wg.real = gosync.WaitGroup{}
	}
}

//go:noinline
func (wg *WaitGroup) Add(delta int) {
	s := simrt.Cur()
	if s == nil {
		wg.real.Add(delta)
		return
	}
	wg.enter(s)
	s.Yield(simrt.YWaitGroup)
	wg.real.Add(delta) // panics exactly like the real one on a negative counter
	wg.n += delta
	if wg.n == 0 {
		for _, w := range wg.waiters {
			s.Wake(w)
		}
		wg.waiters = nil
	}
}

//go:noinline
func (wg *WaitGroup) Done() { wg.Add(-1) }

//go:noinline
func (wg *WaitGroup) Wait() {
	s := simrt.Cur()
	if s == nil {
		wg.real.Wait()
		return
	}
	wg.enter(s)
	s.Yield(simrt.YWaitGroup)
	for wg.n > 0 {
		wg.waiters = append(wg.waiters, s.Current())
		s.Block(simrt.WWaitGroup, wg, fmt.Sprintf("counter=%d", wg.n))
	}
	wg.real.Wait()
}

// Once models sync.Once.
type Once struct {
	real    gosync.Once
	sim     *simrt.Sim
	state   int // 0 idle, 1 running, 2 done
	waiters []*simrt.Task
}

//go:noinline
func (o *Once) Do(f func()) {
	s := simrt.Cur()
	if s == nil {
		o.real.Do(f)
		return
	}
	if o.sim != s {
		// A Once that completed outside any simulation stays completed.
		done := false
		o.real.Do(func() { done = true })
		if done {
			o.real = gosync.Once{}
			o.state = 0
		} else {
			o.state = 2
		}
		o.sim = s
		o.waiters = nil
	}
	s.Yield(simrt.YOnce)
	for o.state == 1 {
		o.waiters = append(o.waiters, s.Current())
		s.Block(simrt.WOnce, o, "")
	}
	if o.state == 2 {
		o.real.Do(func() {})
		return
	}
	o.state = 1
	defer func() {
		o.state = 2
		for _, w := range o.waiters {
			s.Wake(w)
		}
		o.waiters = nil
	}()
	o.real.Do(f)
}

// OnceFunc and friends are not modelled; code using them does not compile
// against this package, which the driver reports as an infrastructure error.
