// Package net is the simulator's stand-in for the entry points of package net
// the library uses.  Types are aliases of the real ones (net.Conn and
// net.Listener are interfaces already); Listen and Dial go to the simulated
// transport inside a simulation.
package net

import (
	gonet "net"
	"time"

	"verif/sim/simnet"
	"verif/sim/simrt"
)

type (
	Conn                = gonet.Conn
	Listener            = gonet.Listener
	Error               = gonet.Error
	OpError             = gonet.OpError
	Addr                = gonet.Addr
	TCPAddr             = gonet.TCPAddr
	TCPConn             = gonet.TCPConn
	IP                  = gonet.IP
	AddrError           = gonet.AddrError
	DNSError            = gonet.DNSError
	UnknownNetworkError = gonet.UnknownNetworkError
)

var ErrClosed = gonet.ErrClosed

//go:noinline
func Listen(network, address string) (Listener, error) {
	if s := simrt.Cur(); s != nil {
		l, err := simnet.Listen(s, network, address)
		if err != nil {
			return nil, err
		}
		return l, nil
	}
	return gonet.Listen(network, address)
}

//go:noinline
func Dial(network, address string) (Conn, error) {
	if s := simrt.Cur(); s != nil {
		c, err := simnet.Dial(s, network, address)
		if err != nil {
			return nil, err
		}
		return c, nil
	}
	return gonet.Dial(network, address)
}

//go:noinline
func DialTimeout(network, address string, _ time.Duration) (Conn, error) {
	return Dial(network, address)
}

func JoinHostPort(host, port string) string { return gonet.JoinHostPort(host, port) }
func SplitHostPort(hostport string) (host, port string, err error) {
	return gonet.SplitHostPort(hostport)
}
func Pipe() (Conn, Conn) { panic("net.Pipe is not modelled by the simulator") }
